/-
C03 (link Impl → Spec): the gm-sm2 protocol models compute what GB/T 32918.2 says.
* `compute_za_refines`: ZA.
* verification: `verify_raw_refines` (for every valid representation of the public key, every 32-byte digest and 64-byte
  signature the model accepts exactly when the standard's verifier does — after the fix of key.rs the model rejects a
  signature with [s]G + [t]P = O as B5/B6 of §7.1 require), its two directions `verify_raw_complete` / `verify_raw_sound`,
  and the regression `cx_now_rejected` (the input the unfixed code accepted against the standard is rejected by both).
* signing with a given nonce: `sign_raw_refines` (same (r, s) as the standard for every d ∈ [1, n−2], every digest, every
  k ∈ [1, n−1]), `sign_raw_retry` (on "return to A3" the model takes the next candidate).
* `sign_then_verify_impl`: what the model signs, the model verifies and the standard's verifier accepts.
* C05 link: `kdf_refines`, `encrypt_refines` / `encLoop_refines` / `encLoop_retry`, `decrypt_refines` / `decrypt_refines_none`.
* C15 link: `kex_refines`, `kex_refines_honest`.
Only property theorems here; the work is in `Proofs.SM2Protocol`, `Proofs.SM2Enc`, `Proofs.SM2Kex` (on top of `Thm.C11`:
g_mul / scalar_mul for all scalars).
-/
import GmVerif.Proofs.SM2Protocol
import GmVerif.Proofs.SM2Enc
import GmVerif.Proofs.SM2Kex
import GmVerif.Thm.C11
import GmVerif.Thm.SpecSM2

namespace GmVerif.Thm.C03
open GmVerif GmVerif.Proofs.SM2Curve
open GmVerif.Thm.C11b (G1 G2)
open GmVerif.Thm.SpecSM2 (exD exK exE exR exS exXA exYA exId exPlain exCt)

/-- e, ZA -/
theorem compute_za_refines (id : List UInt8) (P : Impl.SM2.Point) (hP : Valid P) (hz : P.z ≠ 0)
    (hid : id.length * 8 ≤ 65535) (x y) (h : toSpec P = some (x, y)) :
    Impl.SM2.compute_za id P = .ok (Spec.SM2.ZA id x y) :=
  Proofs.SM2Protocol.compute_za_refines id P hP hz hid x y h

/-- on a Z ≠ 1 representation of G, with the default ID -/
example : Impl.SM2.compute_za exId G2 = .ok (Spec.SM2.ZA exId Spec.SM2.Gx Spec.SM2.Gy) :=
  compute_za_refines exId G2 Thm.C11.G2_valid (by decide +kernel) (by decide) _ _ Thm.C11.G2_toSpec
/-- the side conditions are needed: the point at infinity passes `is_valid` and gets a ZA, an over-long ID is an error -/
example : (Impl.SM2.compute_za exId Impl.SM2.Point.zero).isOk = true
    ∧ Impl.SM2.compute_za (List.replicate 8192 0) G1 = .err "IdTooLong" := by decide +kernel

/-! ## verification -/

/-- completeness: the model accepts everything the standard's verifier accepts (for a valid public key) -/
theorem verify_raw_complete (digest sig : List UInt8) (P : Impl.SM2.Point) (hP : Valid P) (hd : digest.length = 32)
    (hs : sig.length = 64)
    (h : Spec.SM2.verify (toSpec P) (beNat digest) (beNat (sig.take 32)) (beNat (sig.drop 32)) = true) :
    Impl.SM2.verify_raw digest P sig = .ok () :=
  Proofs.SM2Protocol.verify_raw_complete digest sig P hP hd hs h

/-- the model accepts exactly what the standard's verifier accepts (GB/T 32918.2 §7.1 B1–B7), for every valid
representation of the public key -/
theorem verify_raw_refines (digest sig : List UInt8) (P : Impl.SM2.Point) (hP : Valid P) (hd : digest.length = 32)
    (hs : sig.length = 64) :
    (Impl.SM2.verify_raw digest P sig = .ok ()) ↔
      Spec.SM2.verify (toSpec P) (beNat digest) (beNat (sig.take 32)) (beNat (sig.drop 32)) = true :=
  Proofs.SM2Protocol.verify_raw_refines digest sig P hP hd hs

/-- soundness: everything the model accepts is accepted by the standard's verifier -/
theorem verify_raw_sound (digest sig : List UInt8) (P : Impl.SM2.Point) (hP : Valid P) (hd : digest.length = 32)
    (hs : sig.length = 64) (h : Impl.SM2.verify_raw digest P sig = .ok ()) :
    Spec.SM2.verify (toSpec P) (beNat digest) (beNat (sig.take 32)) (beNat (sig.drop 32)) = true :=
  Proofs.SM2Protocol.verify_raw_sound digest sig P hP hd hs h

/-- the counterexample to the refinement before the fix of key.rs: public key G (d = 1), digest e = 1, r = 1,
s = (n−1)/2, so t = (n+1)/2 and [s]G + [t]G = [n]G = O; the unfixed code read x₁ = 0 off the point at infinity and
accepted since r = e mod n -/
def cxDigest : List UInt8 := natBE 32 1
def cxSig : List UInt8 := natBE 32 1 ++ natBE 32 ((Spec.SM2.n - 1) / 2)

/-- regression: that input is now rejected by the model (evaluated in the kernel) and by the standard's verifier (by the
group law: [s]G + [t]G = [n]G = O, independently of the model) -/
theorem cx_now_rejected :
    (∃ e, Impl.SM2.verify_raw cxDigest G1 cxSig = .err e)
      ∧ Spec.SM2.verify (toSpec G1) (beNat cxDigest) (beNat (cxSig.take 32)) (beNat (cxSig.drop 32)) = false := by
  refine ⟨⟨"InvalidDigest", by decide +kernel⟩, ?_⟩
  have e1 : beNat cxDigest = 1 := by decide +kernel
  have e2 : beNat (cxSig.take 32) = 1 := by decide +kernel
  have e3 : beNat (cxSig.drop 32) = (Spec.SM2.n - 1) / 2 := by decide +kernel
  rw [Thm.C11.G1_toSpec, e1, e2, e3]
  cases h : Spec.SM2.verify Spec.SM2.G 1 1 ((Spec.SM2.n - 1) / 2) with
  | false => rfl
  | true =>
    obtain ⟨_, _, _, _, _, x1, y1, hadd, _⟩ := (Thm.SpecSM2.verify_iff _ _ _ _).mp h
    have ht : (1 + (Spec.SM2.n - 1) / 2) % Spec.SM2.n = (Spec.SM2.n + 1) / 2 := by decide
    have hn : (Spec.SM2.n - 1) / 2 + (Spec.SM2.n + 1) / 2 = Spec.SM2.n := by decide
    rw [ht, ← Proofs.SM2Algebra.sm2_mul_add Proofs.SM2Scalar.p_prime, hn, Thm.SpecSM2.sm2_nG] at hadd
    cases hadd

/-- the hypotheses of `verify_raw_refines` hold for that input, so both sides of the `↔` are false there -/
example : Valid G1 ∧ cxDigest.length = 32 ∧ cxSig.length = 64 := ⟨Thm.C11.G1_valid, by decide, by decide⟩

/-- non-vacuity of the positive direction: the Annex A signature is accepted by the model under a Z ≠ 1 representation of
the Annex A public key -/
example : Impl.SM2.verify_raw (natBE 32 exE) (G2.scalar_mul exD) (natBE 32 exR ++ natBE 32 exS) = .ok () := by
  have hv := Thm.C11.scalar_mul_correct G2 Thm.C11.G2_valid exD (by decide)
  apply verify_raw_complete _ _ _ hv.1 (by decide) (by decide)
  have e1 : beNat (natBE 32 exE) = exE := by decide +kernel
  have e2 : beNat ((natBE 32 exR ++ natBE 32 exS).take 32) = exR := by decide +kernel
  have e3 : beNat ((natBE 32 exR ++ natBE 32 exS).drop 32) = exS := by decide +kernel
  rw [hv.2, Thm.C11.G2_toSpec, e1, e2, e3]
  exact (Thm.SpecSM2.sign_then_verify Proofs.SM2Scalar.p_prime Proofs.SM2Scalar.n_prime exD exE exK exR exS
    (by decide +kernel) (by decide +kernel) (by decide +kernel) Thm.SpecSM2.ex_sign).2.2.2.2
/-- and a wrong signature is rejected by the model -/
example : Impl.SM2.verify_raw (natBE 32 exE) G1 (natBE 32 exR ++ natBE 32 exS) = .err "InvalidDigest" := by
  decide +kernel
/-- non-vacuity of the other direction: the model accepts the Annex A signature (evaluated in the kernel), hence so does
the standard's verifier -/
example : Spec.SM2.verify (toSpec (Impl.SM2.g_mul exD)) (beNat (natBE 32 exE))
    (beNat ((natBE 32 exR ++ natBE 32 exS).take 32)) (beNat ((natBE 32 exR ++ natBE 32 exS).drop 32)) = true :=
  verify_raw_sound _ _ _ (Thm.C11.g_mul_correct exD (by decide)).1 (by decide) (by decide) (by decide +kernel)
/-- and the `↔` transports the rejection: under the wrong public key G the standard's verifier rejects too -/
example : Spec.SM2.verify (toSpec G1) (beNat (natBE 32 exE))
    (beNat ((natBE 32 exR ++ natBE 32 exS).take 32)) (beNat ((natBE 32 exR ++ natBE 32 exS).drop 32)) ≠ true :=
  fun h => nomatch ((verify_raw_refines _ _ _ Thm.C11.G1_valid (by decide) (by decide)).mpr h).symm.trans
    (show Impl.SM2.verify_raw (natBE 32 exE) G1 (natBE 32 exR ++ natBE 32 exS) = .err "InvalidDigest" by decide +kernel)

/-! ## signing -/

/-- signing with a fixed nonce: same (r, s) as the standard, for every d in [1, n−2], every 32-byte digest, every k in
[1, n−1] -/
theorem sign_raw_refines (digest : List UInt8) (hd : digest.length = 32) (d : Nat)
    (hdr : 1 ≤ d ∧ d ≤ Spec.SM2.n - 2) (kbytes : List UInt8)
    (hk : kbytes.length = 32 ∧ 1 ≤ beNat kbytes ∧ beNat kbytes < Spec.SM2.n) (r s)
    (h : Spec.SM2.signWith d (beNat digest) (beNat kbytes) = some (r, s)) (rest) :
    ∃ out, Impl.SM2.sign_raw digest d (kbytes :: rest) = .ok out ∧ out.val = natBE 32 r ++ natBE 32 s
      ∧ out.used = [beNat kbytes] ∧ out.rest = rest :=
  Proofs.SM2Protocol.sign_raw_refines digest hd d hdr kbytes hk r s h rest

/-- when the standard says "return to A3" for this k, the model moves on to the next candidate (same e, same (1+d)⁻¹,
k recorded as used) -/
theorem sign_raw_retry (digest : List UInt8) (hd : digest.length = 32) (d : Nat) (hdr : 1 ≤ d ∧ d ≤ Spec.SM2.n - 2)
    (kbytes : List UInt8) (hk : 1 ≤ beNat kbytes ∧ beNat kbytes < Spec.SM2.n)
    (h : Spec.SM2.signWith d (beNat digest) (beNat kbytes) = none) (rest : List (List UInt8)) :
    Impl.SM2.sign_raw digest d (kbytes :: rest) =
      Impl.SM2.signLoop (beNat digest % Spec.SM2.n) d (Spec.EC.invMod ((1 + d) % Spec.SM2.n) Spec.SM2.n)
        (rest.length + 1) rest [beNat kbytes] :=
  Proofs.SM2Protocol.sign_raw_retry digest hd d hdr kbytes hk h rest

/-- GB/T 32918.5 Annex A.2: the model produces the standard's (r, s) -/
example : ∃ out, Impl.SM2.sign_raw (natBE 32 exE) exD [natBE 32 exK] = .ok out
    ∧ out.val = natBE 32 exR ++ natBE 32 exS ∧ out.used = [exK] := by
  have e1 : beNat (natBE 32 exE) = exE := by decide +kernel
  have e2 : beNat (natBE 32 exK) = exK := by decide +kernel
  obtain ⟨out, h1, h2, h3, _⟩ := sign_raw_refines (natBE 32 exE) (by decide) exD (by decide +kernel) (natBE 32 exK)
    (by rw [e2]; decide +kernel) exR exS (by rw [e1, e2]; exact Thm.SpecSM2.ex_sign) []
  exact ⟨out, h1, h2, by rw [h3, e2]⟩
/-- a "return to A3" case exists: k = n − r makes r + k = n; here e = n − x([1]G) + 1, k = n − 1 -/
example : Spec.SM2.signWith 1 (Spec.SM2.n - Spec.SM2.Gx % Spec.SM2.n) 1 = none := by decide +kernel

/-- consequence (C03): what the model signs (given nonce), the model verifies under any valid representation of the
public key [d]G, and so does the standard's verifier -/
theorem sign_then_verify_impl (digest : List UInt8) (hd : digest.length = 32) (d : Nat)
    (hdr : 1 ≤ d ∧ d ≤ Spec.SM2.n - 2) (kbytes : List UInt8)
    (hk : kbytes.length = 32 ∧ 1 ≤ beNat kbytes ∧ beNat kbytes < Spec.SM2.n) (r s)
    (h : Spec.SM2.signWith d (beNat digest) (beNat kbytes) = some (r, s)) (rest)
    (P : Impl.SM2.Point) (hP : Valid P) (hPd : toSpec P = Spec.EC.mul Spec.SM2.curve d Spec.SM2.G) :
    ∃ out, Impl.SM2.sign_raw digest d (kbytes :: rest) = .ok out ∧ out.val = natBE 32 r ++ natBE 32 s
      ∧ Impl.SM2.verify_raw digest P out.val = .ok ()
      ∧ Spec.SM2.verify (Spec.EC.mul Spec.SM2.curve d Spec.SM2.G) (beNat digest) r s = true :=
  Proofs.SM2Protocol.sign_then_verify_impl digest hd d hdr kbytes hk r s h rest P hP hPd

/-- with the public key the model derives from d (`public_from_private`: `g_mul d`) -/
theorem sign_then_verify_own_key (digest : List UInt8) (hd : digest.length = 32) (d : Nat)
    (hdr : 1 ≤ d ∧ d ≤ Spec.SM2.n - 2) (kbytes : List UInt8)
    (hk : kbytes.length = 32 ∧ 1 ≤ beNat kbytes ∧ beNat kbytes < Spec.SM2.n) (r s)
    (h : Spec.SM2.signWith d (beNat digest) (beNat kbytes) = some (r, s)) (rest) :
    ∃ out, Impl.SM2.sign_raw digest d (kbytes :: rest) = .ok out
      ∧ Impl.SM2.verify_raw digest (Impl.SM2.g_mul d) out.val = .ok () := by
  have hn : Spec.SM2.n < 2 ^ 256 := by decide
  have hg := Thm.C11.g_mul_correct d (by omega)
  obtain ⟨out, h1, _, h3, _⟩ := sign_then_verify_impl digest hd d hdr kbytes hk r s h rest _ hg.1 hg.2
  exact ⟨out, h1, h3⟩

example : ∃ out, Impl.SM2.sign_raw (natBE 32 exE) exD [natBE 32 exK] = .ok out
    ∧ Impl.SM2.verify_raw (natBE 32 exE) (Impl.SM2.g_mul exD) out.val = .ok () := by
  have e1 : beNat (natBE 32 exE) = exE := by decide +kernel
  have e2 : beNat (natBE 32 exK) = exK := by decide +kernel
  exact sign_then_verify_own_key (natBE 32 exE) (by decide) exD (by decide +kernel) (natBE 32 exK)
    (by rw [e2]; decide +kernel) exR exS (by rw [e1, e2]; exact Thm.SpecSM2.ex_sign) []


/-! ## C05 link: KDF, encryption, decryption (GB/T 32918.4) -/

/-- the model's KDF (f64 ceiling, `for _ in 1..bound` plus a last partial block) is the standard's KDF for every klen ≥ 1 -/
theorem kdf_refines (z : List UInt8) (klen : Nat) (h : 1 ≤ klen) : Impl.SM2.kdf z klen = Spec.SM2.kdf z klen :=
  Proofs.SM2Enc.kdf_eq z klen h
/-- klen ≥ 1 is needed: for klen = 0 the model returns a whole block, the standard nothing -/
example : (Impl.SM2.kdf [] 0).length = 32 ∧ Spec.SM2.kdf [] 0 = [] := by decide +kernel
example : Impl.SM2.kdf [1, 2, 3] 33 = Spec.SM2.kdf [1, 2, 3] 33 ∧ (Spec.SM2.kdf [1, 2, 3] 33).length = 33 :=
  ⟨kdf_refines _ _ (by decide), Proofs.SM2Algebra.kdf_length _ _⟩

/-- `Spec.SM2.Order` ↦ the model's `Model` -/
abbrev toModel := Proofs.SM2Enc.toModel

/-- one round of the encryption loop on an admissible candidate k for which the standard produces a ciphertext: the model
produces the same ciphertext (every valid representation of the public key, both C1 encodings, both orders).  The
hypothesis `encryptWith … = some ct` contains [k]P ≠ O; for a finite P of order dividing k (impossible on a curve of prime
order n, which is not proved here) the standard aborts while the model would read (0, 0) off the point at infinity. -/
theorem encLoop_refines (pk : Impl.SM2.Point) (hP : Valid pk) (msg : List UInt8) (hm : msg ≠ []) (compressed : Bool)
    (order : Spec.SM2.Order) (fuel : Nat) (kbytes : List UInt8) (rest : List (List UInt8)) (used : List Nat)
    (hk : 1 ≤ beNat kbytes ∧ beNat kbytes < Spec.SM2.n) (ct : List UInt8)
    (h : Spec.SM2.encryptWith (toSpec pk) msg (beNat kbytes) compressed order = some ct) :
    Impl.SM2.encLoop pk msg compressed (toModel order) (fuel + 1) (kbytes :: rest) used
      = .ok ⟨ct, used ++ [beNat kbytes], rest⟩ :=
  Proofs.SM2Enc.encLoop_step pk hP msg hm compressed order fuel kbytes rest used hk ct h

/-- when the standard restarts (t all zero) the model takes the next candidate -/
theorem encLoop_retry (pk : Impl.SM2.Point) (hP : Valid pk) (msg : List UInt8) (hm : msg ≠ []) (compressed : Bool)
    (model : Impl.SM2.Model) (fuel : Nat) (kbytes : List UInt8) (rest : List (List UInt8)) (used : List Nat)
    (hk : 1 ≤ beNat kbytes ∧ beNat kbytes < Spec.SM2.n) (x2 y2 : Nat)
    (hkP : Spec.EC.mul Spec.SM2.curve (beNat kbytes) (toSpec pk) = some (x2, y2))
    (ht : (Spec.SM2.kdf (Spec.SM2.bytes32 x2 ++ Spec.SM2.bytes32 y2) msg.length).all (· == 0) = true) :
    Impl.SM2.encLoop pk msg compressed model (fuel + 1) (kbytes :: rest) used
      = Impl.SM2.encLoop pk msg compressed model fuel rest (used ++ [beNat kbytes]) :=
  Proofs.SM2Enc.encLoop_retry pk hP msg hm compressed model fuel kbytes rest used hk x2 y2 hkP ht

/-- `Sm2PublicKey::encrypt` -/
theorem encrypt_refines (pk : Impl.SM2.Point) (hP : Valid pk) (msg : List UInt8) (hm : msg ≠ []) (compressed : Bool)
    (order : Spec.SM2.Order) (kbytes : List UInt8) (rest : List (List UInt8))
    (hk : 1 ≤ beNat kbytes ∧ beNat kbytes < Spec.SM2.n) (ct : List UInt8)
    (h : Spec.SM2.encryptWith (toSpec pk) msg (beNat kbytes) compressed order = some ct) :
    Impl.SM2.encrypt pk msg compressed (toModel order) (kbytes :: rest) = .ok ⟨ct, [beNat kbytes], rest⟩ :=
  Proofs.SM2Enc.encrypt_refines pk hP msg hm compressed order kbytes rest hk ct h

/-- GB/T 32918.5 Annex C: the model produces the standard's ciphertext (public key as derived by the model, `g_mul d`) -/
example : Impl.SM2.encrypt (Impl.SM2.g_mul exD) exPlain false .c1c3c2 [natBE 32 exK] = .ok ⟨exCt, [exK], []⟩ := by
  have hg := Thm.C11.g_mul_correct exD (by decide)
  have e2 : beNat (natBE 32 exK) = exK := by decide +kernel
  have h := encrypt_refines _ hg.1 exPlain (by decide) false .c1c3c2 (natBE 32 exK) [] (by rw [e2]; decide +kernel) exCt
    (by rw [hg.2, Thm.SpecSM2.ex_pub, e2]; exact Thm.SpecSM2.ex_encrypt')
  rwa [e2] at h
/-- the empty message is an error in the model (and `encryptWith` returns `none` for it: t is empty) -/
example : (Impl.SM2.encrypt G1 [] false .c1c3c2 [natBE 32 exK]).isErr = true := by decide +kernel

/-- decryption: whatever plaintext the standard's decryption returns, the model returns (every d < 2^256, every byte
string, both C1 encodings, both orders) -/
theorem decrypt_refines (d : Nat) (hd : d < 2 ^ 256) (ct : List UInt8) (compressed : Bool) (order : Spec.SM2.Order)
    (m : List UInt8) (h : Spec.SM2.decrypt d ct compressed order = some m) :
    Impl.SM2.decrypt d ct compressed (toModel order) = .ok m :=
  Proofs.SM2Enc.decrypt_refines d hd ct compressed order m h

/-- and when the standard reports an error so does the model, provided [d]C1 is not the point at infinity (there the model
reads (0, 0) off the point at infinity and goes on to the KDF; this cannot happen for d ∈ [1, n−1] if the curve has
prime order n — the point count is not proved here, hence the hypothesis) -/
theorem decrypt_refines_none (d : Nat) (hd : d < 2 ^ 256) (ct : List UInt8) (compressed : Bool)
    (order : Spec.SM2.Order) (h : Spec.SM2.decrypt d ct compressed order = none)
    (hfin : ∀ c1, Spec.SM2.decodePoint (ct.take (if compressed then 33 else 65)) = some c1 →
      Spec.EC.mul Spec.SM2.curve d (some c1) ≠ none) :
    ∃ e, Impl.SM2.decrypt d ct compressed (toModel order) = .err e :=
  Proofs.SM2Enc.decrypt_refines_none d hd ct compressed order h hfin

/-- Annex C again: the model decrypts the standard's ciphertext -/
example : Impl.SM2.decrypt exD exCt false .c1c3c2 = .ok exPlain :=
  decrypt_refines exD (by decide) exCt false .c1c3c2 exPlain
    (Thm.SpecSM2.decrypt_encrypt Proofs.SM2Scalar.p_prime Proofs.SM2Scalar.n_prime exD exK (by decide +kernel)
      (by decide +kernel) exPlain (by decide) false .c1c3c2 exCt Thm.SpecSM2.ex_encrypt)
/-- a short input is an error on both sides -/
example : Spec.SM2.decrypt exD (exCt.take 97) false .c1c3c2 = none
    ∧ Impl.SM2.decrypt exD (exCt.take 97) false .c1c3c2 = .err "InvalidFieldLen" := by decide +kernel

/-- encrypt then decrypt through the model, for every valid key pair representation, message, admissible nonce -/
theorem encrypt_then_decrypt_impl (d : Nat) (hd : 1 ≤ d ∧ d < Spec.SM2.n) (pk : Impl.SM2.Point) (hP : Valid pk)
    (hpk : toSpec pk = Spec.EC.mul Spec.SM2.curve d Spec.SM2.G) (msg : List UInt8) (hm : msg ≠ []) (compressed : Bool)
    (order : Spec.SM2.Order) (kbytes : List UInt8) (rest : List (List UInt8))
    (hk : 1 ≤ beNat kbytes ∧ beNat kbytes < Spec.SM2.n) (ct : List UInt8)
    (h : Spec.SM2.encryptWith (toSpec pk) msg (beNat kbytes) compressed order = some ct) :
    Impl.SM2.encrypt pk msg compressed (toModel order) (kbytes :: rest) = .ok ⟨ct, [beNat kbytes], rest⟩
      ∧ Impl.SM2.decrypt d ct compressed (toModel order) = .ok msg := by
  have hn : Spec.SM2.n < 2 ^ 256 := by decide
  refine ⟨encrypt_refines pk hP msg hm compressed order kbytes rest hk ct h, ?_⟩
  apply decrypt_refines d (by omega)
  rw [hpk] at h
  exact Thm.SpecSM2.decrypt_encrypt Proofs.SM2Scalar.p_prime Proofs.SM2Scalar.n_prime d (beNat kbytes) hd hk msg hm
    compressed order ct h

/-! ## C15 link: key agreement (GB/T 32918.3) -/

/-- an honest run of exchange_1 … exchange_4 (no tampering, admissible nonces r_A, r_B, finite valid public keys, klen ≥ 1):
whenever the standard's computations of both parties succeed and their confirmation values agree, the model returns
R_A, R_B, S_B, S_A, K_A, K_B exactly as the standard computes them -/
theorem kex_refines (dA dB : Nat) (hdA : dA < Spec.SM2.n) (hdB : dB < Spec.SM2.n) (pA pB : Impl.SM2.Point)
    (hpA : Valid pA) (hpB : Valid pB)
    (xA yA xB yB : Nat) (hA : toSpec pA = some (xA, yA)) (hB : toSpec pB = some (xB, yB))
    (idA idB : List UInt8) (hidA : idA.length * 8 ≤ 65535) (hidB : idB.length * 8 ≤ 65535)
    (klen : Nat) (hklen : 1 ≤ klen) (kA kB : List UInt8) (rest : List (List UInt8))
    (hkA : 1 ≤ beNat kA ∧ beNat kA < Spec.SM2.n) (hkB : 1 ≤ beNat kB ∧ beNat kB < Spec.SM2.n)
    (a b : Spec.SM2.KexResult)
    (ha : Spec.SM2.kexCompute dA (beNat kA) (Spec.EC.mul Spec.SM2.curve (beNat kA) Spec.SM2.G)
      (Spec.EC.mul Spec.SM2.curve (beNat kB) Spec.SM2.G)
      (some (xB, yB)) (Spec.SM2.ZA idA xA yA) (Spec.SM2.ZA idB xB yB) klen
      (Spec.EC.mul Spec.SM2.curve (beNat kA) Spec.SM2.G) (Spec.EC.mul Spec.SM2.curve (beNat kB) Spec.SM2.G) = some a)
    (hb : Spec.SM2.kexCompute dB (beNat kB) (Spec.EC.mul Spec.SM2.curve (beNat kB) Spec.SM2.G)
      (Spec.EC.mul Spec.SM2.curve (beNat kA) Spec.SM2.G)
      (some (xA, yA)) (Spec.SM2.ZA idA xA yA) (Spec.SM2.ZA idB xB yB) klen
      (Spec.EC.mul Spec.SM2.curve (beNat kA) Spec.SM2.G) (Spec.EC.mul Spec.SM2.curve (beNat kB) Spec.SM2.G) = some b)
    (h1 : a.s1 = b.s1) (h2 : a.s2 = b.s2) :
    ∃ out, Impl.SM2.kex dA pA dB pB idA idB klen (kA :: kB :: rest) [] = .ok out
      ∧ out.ra = Spec.SM2.encodePoint false (Spec.EC.mul Spec.SM2.curve (beNat kA) Spec.SM2.G)
      ∧ out.rb = Spec.SM2.encodePoint false (Spec.EC.mul Spec.SM2.curve (beNat kB) Spec.SM2.G)
      ∧ out.sb = b.s1 ∧ out.sa = a.s2 ∧ out.ka = a.key ∧ out.kb = b.key :=
  Proofs.SM2Kex.kex_refines dA dB hdA hdB pA pB hpA hpB xA yA xB yB hA hB idA idB hidA hidB klen hklen kA kB rest
    hkA hkB a b ha hb h1 h2

/-- with honest keys P_A = [d_A]G, P_B = [d_B]G the agreement of the confirmation values is a theorem
(`Thm.SpecSM2.kex_agree`): both parties get the standard's key -/
theorem kex_refines_honest (dA dB : Nat) (hdA : dA < Spec.SM2.n) (hdB : dB < Spec.SM2.n) (pA pB : Impl.SM2.Point)
    (hpA : Valid pA) (hpB : Valid pB)
    (xA yA xB yB : Nat) (hA : toSpec pA = some (xA, yA)) (hB : toSpec pB = some (xB, yB))
    (hPA : Spec.EC.mul Spec.SM2.curve dA Spec.SM2.G = some (xA, yA))
    (hPB : Spec.EC.mul Spec.SM2.curve dB Spec.SM2.G = some (xB, yB))
    (idA idB : List UInt8) (hidA : idA.length * 8 ≤ 65535) (hidB : idB.length * 8 ≤ 65535)
    (klen : Nat) (hklen : 1 ≤ klen) (kA kB : List UInt8) (rest : List (List UInt8))
    (hkA : 1 ≤ beNat kA ∧ beNat kA < Spec.SM2.n) (hkB : 1 ≤ beNat kB ∧ beNat kB < Spec.SM2.n)
    (a : Spec.SM2.KexResult)
    (ha : Spec.SM2.kexCompute dA (beNat kA) (Spec.EC.mul Spec.SM2.curve (beNat kA) Spec.SM2.G)
      (Spec.EC.mul Spec.SM2.curve (beNat kB) Spec.SM2.G)
      (Spec.EC.mul Spec.SM2.curve dB Spec.SM2.G) (Spec.SM2.ZA idA xA yA) (Spec.SM2.ZA idB xB yB) klen
      (Spec.EC.mul Spec.SM2.curve (beNat kA) Spec.SM2.G) (Spec.EC.mul Spec.SM2.curve (beNat kB) Spec.SM2.G) = some a) :
    ∃ out, Impl.SM2.kex dA pA dB pB idA idB klen (kA :: kB :: rest) [] = .ok out
      ∧ out.ra = Spec.SM2.encodePoint false (Spec.EC.mul Spec.SM2.curve (beNat kA) Spec.SM2.G)
      ∧ out.rb = Spec.SM2.encodePoint false (Spec.EC.mul Spec.SM2.curve (beNat kB) Spec.SM2.G)
      ∧ out.sb = a.s1 ∧ out.sa = a.s2 ∧ out.ka = a.key ∧ out.kb = a.key :=
  Proofs.SM2Kex.kex_refines_honest dA dB hdA hdB pA pB hpA hpB xA yA xB yB hA hB hPA hPB idA idB hidA hidB klen hklen
    kA kB rest hkA hkB a ha

/-- non-vacuity: d_A = 1 (P_A = G, given as the Z = 2 representation), d_B = Annex A key, r_A = 2, r_B = 4, default IDs,
16-byte key: the standard's computation succeeds, so the model's run succeeds with K_A = K_B -/
theorem ex_kex_spec : (Spec.SM2.kexCompute 1 2 (Spec.EC.mul Spec.SM2.curve 2 Spec.SM2.G)
    (Spec.EC.mul Spec.SM2.curve 4 Spec.SM2.G) (some (exXA, exYA)) (Spec.SM2.ZA exId Spec.SM2.Gx Spec.SM2.Gy)
    (Spec.SM2.ZA exId exXA exYA) 16 (Spec.EC.mul Spec.SM2.curve 2 Spec.SM2.G)
    (Spec.EC.mul Spec.SM2.curve 4 Spec.SM2.G)).isSome = true := by decide +kernel

example : ∃ out, Impl.SM2.kex 1 G2 exD (Impl.SM2.g_mul exD) exId exId 16 [natBE 32 2, natBE 32 4] [] = .ok out
    ∧ out.ka = out.kb := by
  have hg := Thm.C11.g_mul_correct exD (by decide)
  have e2 : beNat (natBE 32 2) = 2 := by decide +kernel
  have e4 : beNat (natBE 32 4) = 4 := by decide +kernel
  cases hs : Spec.SM2.kexCompute 1 2 (Spec.EC.mul Spec.SM2.curve 2 Spec.SM2.G)
      (Spec.EC.mul Spec.SM2.curve 4 Spec.SM2.G) (some (exXA, exYA)) (Spec.SM2.ZA exId Spec.SM2.Gx Spec.SM2.Gy)
      (Spec.SM2.ZA exId exXA exYA) 16 (Spec.EC.mul Spec.SM2.curve 2 Spec.SM2.G)
      (Spec.EC.mul Spec.SM2.curve 4 Spec.SM2.G) with
  | none => have := ex_kex_spec; rw [hs] at this; cases this
  | some a =>
    obtain ⟨out, h1, _, _, _, _, h6, h7⟩ := kex_refines_honest 1 exD (by decide) (by decide +kernel) G2
      (Impl.SM2.g_mul exD) Thm.C11.G2_valid hg.1 Spec.SM2.Gx Spec.SM2.Gy exXA exYA Thm.C11.G2_toSpec
      (hg.2.trans Thm.SpecSM2.ex_pub) (Thm.SpecSM2.mul_one _ _) Thm.SpecSM2.ex_pub exId exId (by decide) (by decide)
      16 (by decide) (natBE 32 2) (natBE 32 4) [] (by rw [e2]; decide) (by rw [e4]; decide) a
      (by rw [e2, e4, Thm.SpecSM2.ex_pub]; exact hs)
    exact ⟨out, h1, h6.trans h7.symm⟩

end GmVerif.Thm.C03
