/-
C10: SM9 encryption in the model of gm-sm9/src/key.rs — KDF and MAC refine GM/T 0044.4, the decision logic of
`decrypt` stated outright, `decrypt` never panics, shape of a successful `encrypt` and its panic-freedom for
|M| ≤ 255.  Only the property theorems; all work is in `GmVerif.Proofs.SM9Logic`.

Hypotheses discharged elsewhere (arithmetic of the point code): `hpm` — `Point::point_mul` returns for every 256-bit
scalar (its Booth table index is in range).
-/
import GmVerif.Proofs.SM9Logic

namespace GmVerif.Thm.C10
open GmVerif GmVerif.Impl.SM9
open GmVerif.Gen.SM9 (N_MINUS_ONE HID_ENC)

/-! ### KDF -/

/-- `kdf_prefix` as given (only `1 ≤ klen`) is FALSE: the block count is a `u32` that saturates at 2^32 − 1, so for
klen > 32·(2^32 − 1) the code returns fewer than klen bytes (`kdf_prefix_unbounded_false`).  This is the strongest true
variant: equality with the standard's KDF for every 1 ≤ klen ≤ 32·(2^32 − 1) = (2^32 − 1)·v/8, which is exactly the
standard's own domain (klen < (2^32 − 1)·v bits). -/
theorem kdf_prefix_partial (z : List UInt8) (klen : Nat) (h : 1 ≤ klen) (h2 : klen ≤ 32 * (2 ^ 32 - 1)) :
    Impl.SM9.kdf z klen = Spec.SM9.kdf z klen :=
  Proofs.SM9Logic.kdf_refines z klen h h2

example : (1 : Nat) ≤ 287 ∧ 287 ≤ 32 * (2 ^ 32 - 1) := by decide
example : Impl.SM9.kdf [1, 2, 3] 40 = Spec.SM9.kdf [1, 2, 3] 40 := kdf_prefix_partial _ _ (by decide) (by decide)

/-- the given statement fails for klen = 2^38 (the two sides have different lengths) -/
theorem kdf_prefix_unbounded_false :
    ¬ ∀ (z : List UInt8) (klen : Nat), 1 ≤ klen → Impl.SM9.kdf z klen = Spec.SM9.kdf z klen :=
  Proofs.SM9Logic.kdf_refines_unbounded_false

/-- `1 ≤ klen` is needed too: for klen = 0 the code returns one whole block, the standard nothing -/
theorem kdf_zero_length (z : List UInt8) : (Impl.SM9.kdf z 0).length = 32 ∧ (Spec.SM9.kdf z 0).length = 0 :=
  ⟨Proofs.SM9Logic.kdf_length_zero z, Proofs.SM9Logic.spec_kdf_length z 0⟩

/-- length of the code's KDF output for every klen -/
theorem kdf_length (z : List UInt8) (klen : Nat) (h : 1 ≤ klen) (h2 : klen ≤ 32 * (2 ^ 32 - 1)) :
    (Impl.SM9.kdf z klen).length = klen :=
  Proofs.SM9Logic.kdf_length z klen h h2

example : (Impl.SM9.kdf [] 287).length = 287 := kdf_length _ _ (by decide) (by decide)

/-- the code's fixed KDF(…, 287) split at |M| equals K1 ‖ K2 of KDF(…, |M|+32) for every |M| ≤ 255 -/
theorem kdf_287_split (z : List UInt8) (mlen : Nat) (h : mlen ≤ 255) :
    (kdf z 287).take mlen = (Spec.SM9.kdf z (mlen + 32)).take mlen
    ∧ ((kdf z 287).drop mlen).take 32 = (Spec.SM9.kdf z (mlen + 32)).drop mlen :=
  Proofs.SM9Logic.kdf_287_split z mlen h

example : (kdf [7] 287).take 255 = (Spec.SM9.kdf [7] (255 + 32)).take 255 := (kdf_287_split [7] 255 (by decide)).1
example : (kdf [7] 287).take 0 = (Spec.SM9.kdf [7] (0 + 32)).take 0 := (kdf_287_split [7] 0 (by decide)).1

/-! ### MAC -/

theorem mac_refines (k2 z : List UInt8) (h : 32 ≤ k2.length) :
    sm9_mac k2 z = .ok (Spec.SM9.mac (k2.take 32) z) :=
  Proofs.SM9Logic.mac_refines k2 z h

example : sm9_mac (List.replicate 32 0) [1] = .ok (Spec.SM9.mac ((List.replicate 32 (0 : UInt8)).take 32) [1]) :=
  mac_refines _ _ (by decide)

/-- `k2[0..32]` panics exactly when fewer than 32 bytes are left -/
theorem mac_panic_iff (k2 z : List UInt8) : sm9_mac k2 z = .panic ↔ k2.length < 32 :=
  Proofs.SM9Logic.mac_panic_iff k2 z

example : sm9_mac (List.replicate 31 0) [1] = .panic := (mac_panic_iff _ _).2 (by decide)

/-! ### decrypt -/

/-- decision logic of decrypt stated outright: length window, prefix 04, both C1 coordinates field elements (< p: the fixed
code), C1 on the curve, K1 not all zero, C3 = SM3(C2 ‖ K2), M = C2 ⊕ K1 -/
theorem decrypt_ok_iff (key : Sm9EncKey) (idb data m : List UInt8) :
    key.decrypt idb data = .ok m ↔
      98 ≤ data.length ∧ data.length ≤ 352 ∧ data.head? = some 0x04 ∧
      beNat ((data.drop 1).take 32) < Spec.SM9.p ∧ beNat ((data.drop 33).take 32) < Spec.SM9.p ∧
      ∃ c1, Point.from_bytes (data.take 65) = .ok c1 ∧ c1.is_on_curve = true ∧
        let k := kdf ((data.take 65).drop 1 ++ (sm9_u256_pairing key.de c1).to_bytes_be ++ idb) 287
        let mlen := data.length - 97
        all_zero (k.take mlen) = false ∧ sm3 (data.drop 97 ++ ((k.drop mlen).take 32)) = (data.drop 65).take 32 ∧
        m = List.zipWith (· ^^^ ·) (data.drop 97) (k.take mlen) :=
  Proofs.SM9Logic.decrypt_ok_iff key idb data m

/-- the repaired defect: a C1 coordinate that is not a field element (x ≥ p or y ≥ p) is `InvalidPoint` — the unfixed code
reduced it modulo p in `Point::from_bytes` and went on, keying the KDF with the octets as received -/
theorem decrypt_noncanonical_c1 (key : Sm9EncKey) (idb data : List UInt8) (h1 : 98 ≤ data.length)
    (h2 : data.length ≤ 352) (hh : data.head? = some 0x04)
    (h : Spec.SM9.p ≤ beNat ((data.drop 1).take 32) ∨ Spec.SM9.p ≤ beNat ((data.drop 33).take 32)) :
    key.decrypt idb data = .err "InvalidPoint" :=
  Proofs.SM9Logic.decrypt_noncanonical key idb data h1 h2 hh h

/-- regression witness: the ciphertext the unfixed code decrypted to 01 02 03 under the Annex C master key for "Bob"
(C1 = [3]Q_B re-encoded as (x + p) ‖ y, C2 and C3 computed for these octets) is now rejected — under every key -/
def noncanonicalCt : List UInt8 := [
   0x04, 0xEB, 0x1E, 0x64, 0xA6, 0xE1, 0x59, 0xD7, 0x19, 0xFF, 0x71, 0xA6, 0x4B, 0x83, 0xB5, 0x6F, 0xF1, 0x28, 0xE2, 0xD2,
   0x95, 0x33, 0xF7, 0xE5, 0x91, 0xF4, 0xE5, 0xDA, 0xAA, 0x22, 0x63, 0xE4, 0xDD, 0x7B, 0x94, 0x79, 0x1B, 0xA6, 0xE2, 0x84,
   0x02, 0xF7, 0xAA, 0x65, 0x42, 0x54, 0x30, 0xC3, 0xC6, 0x04, 0x68, 0x4F, 0xCF, 0x57, 0x2D, 0x0B, 0x7C, 0x0F, 0xF3, 0x25,
   0x5B, 0x3E, 0xD8, 0x5A, 0x55, 0xBD, 0xAB, 0x7E, 0xD5, 0x14, 0x94, 0xBE, 0xC2, 0x65, 0x4F, 0x10, 0xAC, 0x13, 0xD5, 0xBB,
   0xE1, 0x35, 0x8E, 0xA7, 0x96, 0xB0, 0xC8, 0xD6, 0x51, 0x7A, 0xE2, 0xDF, 0xC4, 0x03, 0x7A, 0x86, 0x69, 0xE5, 0xCC, 0x7C]
example : noncanonicalCt.length = 100 ∧ Spec.SM9.p ≤ beNat ((noncanonicalCt.drop 1).take 32)
    ∧ beNat ((noncanonicalCt.drop 1).take 32) - Spec.SM9.p < Spec.SM9.p := by decide +kernel
example (key : Sm9EncKey) (idb : List UInt8) : key.decrypt idb noncanonicalCt = .err "InvalidPoint" :=
  decrypt_noncanonical_c1 key idb noncanonicalCt (by decide +kernel) (by decide +kernel) (by decide +kernel)
    (Or.inl (by decide +kernel))

/-- the left-hand side can fail for each reason separately: a 97-byte input is outside the window -/
example (key : Sm9EncKey) (idb m : List UInt8) : key.decrypt idb (List.replicate 97 4) ≠ .ok m := by
  rw [Ne, decrypt_ok_iff]; intro h; exact absurd h.1 (by decide)

theorem decrypt_total (key : Sm9EncKey) (idb data : List UInt8) : key.decrypt idb data ≠ .panic :=
  Proofs.SM9Logic.decrypt_total key idb data

example (key : Sm9EncKey) : key.decrypt [] [] ≠ .panic := decrypt_total _ _ _

theorem decrypt_bad_length (key : Sm9EncKey) (idb data : List UInt8) (h : data.length < 98 ∨ 352 < data.length) :
    ∃ e, key.decrypt idb data = .err e :=
  ⟨_, Proofs.SM9Logic.decrypt_bad_length key idb data h⟩

example (key : Sm9EncKey) : ∃ e, key.decrypt [] (List.replicate 97 4) = .err e :=
  decrypt_bad_length _ _ _ (Or.inl (by decide))
example (key : Sm9EncKey) : ∃ e, key.decrypt [] (List.replicate 353 4) = .err e :=
  decrypt_bad_length _ _ _ (Or.inr (by decide +kernel))

/-- the kind of the error (the crate's `InvalidFieldLen`) -/
theorem decrypt_bad_length_kind (key : Sm9EncKey) (idb data : List UInt8)
    (h : data.length < 98 ∨ 352 < data.length) : key.decrypt idb data = .err "InvalidFieldLen" :=
  Proofs.SM9Logic.decrypt_bad_length key idb data h

/-- a first byte other than 04 inside the window is `InvalidPoint` -/
theorem decrypt_bad_prefix (key : Sm9EncKey) (idb data : List UInt8) (h1 : 98 ≤ data.length) (h2 : data.length ≤ 352)
    (h : data.head? ≠ some 0x04) : key.decrypt idb data = .err "InvalidPoint" :=
  Proofs.SM9Logic.decrypt_bad_prefix key idb data h1 h2 h

example (key : Sm9EncKey) : key.decrypt [] (List.replicate 98 0) = .err "InvalidPoint" :=
  decrypt_bad_prefix _ _ _ (by decide) (by decide) (by decide)

/-- C1 not on the curve ⇒ error (whatever the rest of the input is) -/
theorem decrypt_off_curve (key : Sm9EncKey) (idb data : List UInt8) (c1 : Point)
    (hc1 : Point.from_bytes (data.take 65) = .ok c1) (hoff : c1.is_on_curve = false) :
    ∃ e, key.decrypt idb data = .err e :=
  Proofs.SM9Logic.decrypt_off_curve key idb data c1 hc1 hoff

/-- 04 ‖ 0 ‖ 0 ‖ … decodes to the point (0, 0), which is not on y² = x³ + 5 -/
def offCurveCt : List UInt8 := 0x04 :: List.replicate 97 0

example : Point.from_bytes (offCurveCt.take 65) = .ok (Proofs.SM9Logic.fromBytesPt (offCurveCt.take 65))
    ∧ (Proofs.SM9Logic.fromBytesPt (offCurveCt.take 65)).is_on_curve = false := by decide +kernel
example (key : Sm9EncKey) : ∃ e, key.decrypt [] offCurveCt = .err e :=
  decrypt_off_curve key [] offCurveCt (Proofs.SM9Logic.fromBytesPt (offCurveCt.take 65)) (by decide +kernel)
    (by decide +kernel)

/-- inside the window and with prefix 04 the error is `InvalidPoint` -/
theorem decrypt_off_curve_kind (key : Sm9EncKey) (idb data : List UInt8) (c1 : Point) (h1 : 98 ≤ data.length)
    (h2 : data.length ≤ 352) (hh : data.head? = some 0x04)
    (hc1 : Point.from_bytes (data.take 65) = .ok c1) (hoff : c1.is_on_curve = false) :
    key.decrypt idb data = .err "InvalidPoint" := by
  rw [Proofs.SM9Logic.from_bytes_ok _ (by rw [List.length_take]; omega)] at hc1
  cases hc1
  exact Proofs.SM9Logic.decrypt_off_curve_kind key idb data h1 h2 hh hoff

example (key : Sm9EncKey) : key.decrypt [] offCurveCt = .err "InvalidPoint" :=
  decrypt_off_curve_kind key [] offCurveCt (Proofs.SM9Logic.fromBytesPt (offCurveCt.take 65)) (by decide +kernel)
    (by decide +kernel) (by decide +kernel) (by decide +kernel) (by decide +kernel)

/-! ### encrypt -/

/-- `encrypt` does not panic for |M| ≤ 255 (the empty message included) -/
theorem encrypt_no_panic (m : Sm9EncMasterKey) (idb data : List UInt8) (cands : List (List UInt8))
    (hpm : ∀ (P : Point) (k : Nat), k < 2 ^ 256 → ∃ R, P.point_mul k = .ok R)
    (hlen : data.length ≤ 255) :
    m.encrypt idb data cands ≠ .panic :=
  Proofs.SM9Logic.encrypt_no_panic m idb data cands
    (fun P k hk h => by obtain ⟨R, hR⟩ := hpm P k hk; rw [hR] at h; cases h) hlen

/-- instances of the hypothesis `hpm` evaluate as required (the general fact is proved with the point arithmetic) -/
example : (POINT_MONT_P1.point_mul 1).isOk = true ∧ (POINT_MONT_P1.point_mul (2 ^ 256 - 1)).isOk = true := by
  decide +kernel

/-- shape of a successful `encrypt`: result = C1 (65) ‖ C3 (32) ‖ C2 (|M|) with C2 = M ⊕ K1, C3 = SM3(C2 ‖ K2),
K = KDF(C1 ‖ w ‖ ID, 287) split at |M|; C1 = [r]Q_B, w = e(P2, Ppub)^r for the accepted candidate r (the last logged
scalar), K1 not all zero for a non-empty M; success implies |M| ≤ 255 -/
theorem encrypt_shape (m : Sm9EncMasterKey) (idb data : List UInt8) (cands : List (List UInt8))
    (ct : List UInt8) (used : List Nat) (rest : List (List UInt8))
    (h : m.encrypt idb data cands = .ok ⟨ct, used, rest⟩) :
    data.length ≤ 255 ∧ rest.length < cands.length ∧
    ∃ t q0 r c1 w skipped,
      sm9_u256_hash1 idb HID_ENC = .ok t ∧ POINT_MONT_P1.point_mul t = .ok q0 ∧
      1 ≤ r ∧ r < N_MINUS_ONE ∧ used = skipped ++ [r] ∧
      (q0.point_add m.ppube).point_mul r = .ok c1 ∧
      (sm9_u256_pairing TWIST_POINT_MONT_P2 m.ppube).pow r = .ok w ∧
      let k := kdf (c1.to_bytes_be.drop 1 ++ w.to_bytes_be ++ idb) 287
      let c2 := List.zipWith (· ^^^ ·) data (k.take data.length)
      (data ≠ [] → all_zero (k.take data.length) = false) ∧
      ct = c1.to_bytes_be ++ sm3 (c2 ++ (k.drop data.length).take 32) ++ c2 ∧
      c2.length = data.length ∧ ct.length = 65 + 32 + data.length :=
  Proofs.SM9Logic.encrypt_shape_full m idb data cands ct used rest h

/-- K1, C3 of `encrypt_shape` in the standard's terms: K = KDF(z, |M| + 32), C3 = MAC(K2, C2) -/
theorem encrypt_shape_spec (z data : List UInt8) (h : data.length ≤ 255) :
    let k := kdf z 287
    let K := Spec.SM9.kdf z (data.length + 32)
    k.take data.length = K.take data.length ∧
    sm3 (List.zipWith (· ^^^ ·) data (k.take data.length) ++ (k.drop data.length).take 32)
      = Spec.SM9.mac (K.drop data.length) (Spec.SM9.xorBytes data (K.take data.length)) :=
  Proofs.SM9Logic.enc_spec_form z data h

example : ([1, 2, 3] : List UInt8).length ≤ 255 := by decide

/-- a message longer than 255 bytes is never encrypted (the code panics or the RNG runs dry) -/
theorem encrypt_long_not_ok (m : Sm9EncMasterKey) (idb data : List UInt8) (cands : List (List UInt8))
    (hlen : 255 < data.length) (res : Rand (List UInt8)) : m.encrypt idb data cands ≠ .ok res := by
  intro h
  have := (encrypt_shape m idb data cands res.val res.used res.rest h).1
  omega

example : 255 < (List.replicate 256 (0 : UInt8)).length := by decide +kernel

/-- … precisely: it PANICS (`&k[0..data.len()]` for |M| > 287, `k2[0..32]` inside `sm9_mac` for 255 < |M| ≤ 287)
unless the RNG stub runs dry first; the crate has no length check on the plaintext -/
theorem encrypt_long_panics (m : Sm9EncMasterKey) (idb data : List UInt8) (cands : List (List UInt8))
    (hpm : ∀ (P : Point) (k : Nat), k < 2 ^ 256 → ∃ R, P.point_mul k = .ok R) (hlen : 255 < data.length) :
    m.encrypt idb data cands = .panic ∨ m.encrypt idb data cands = .err "rng-exhausted" :=
  Proofs.SM9Logic.encrypt_long m idb data cands hpm hlen

end GmVerif.Thm.C10
