/-
Property C10, refinement part (C10b): the model of gm-sm9's `Sm9EncMasterKey::encrypt` / `Sm9EncKey::decrypt` computes what
GM/T 0044.4 §7.2 / §7.3 say (`Spec.SM9.encryptWith`, `Spec.SM9.decrypt`), GIVEN the two named hypotheses of
`Proofs.SM9Bridge`:
  `PR : PairingRefines` — the model's pairing routine returns a canonical tower element denoting `Spec.SM9.pairing` (NOT proved),
  `TD : TowerDense`     — tower multiplication is dense multiplication (proved elsewhere; taken as a hypothesis here).
Everything else is proved: the point arithmetic (C13c/C13d), H1 (C16), KDF/MAC (C10), `Fp12::pow` from `TD` (`dense_pow`).

Contents
 0. the `hpm`-free restatements of C10 (`Thm.C13c.point_mul_total` discharges the hypothesis);
 1. `Fp12::pow` and the sampler `sm9_random_u256(N − 1)` in closed form;
 2. `encrypt_refines`: `encrypt` returns EXACTLY what the standard's loop over the same candidates returns, for 1 ≤ |M| ≤ 255;
    `encrypt_empty`: the empty message (where the model and the standard differ) stated as it is;
 3. `decrypt_refines`, `decrypt_exact`, `decrypt_model`: decryption — the model (fixed code: C1 coordinates ≥ p are
    `InvalidPoint`) decrypts exactly what the standard decrypts, for every byte string of at most 352 octets; the only
    remaining difference (|C| > 352, i.e. more than 255 message octets — outside C10) is stated exactly;
 4. `encrypt_then_decrypt_impl`: what the model encrypts, the model decrypts (needs the specification-level bilinearity
    hypothesis `PairingFacts` of `Thm.SpecSM9` as well).
Only property theorems here; the work is in `Proofs.SM9EncRefinesBase`, `Proofs.SM9EncRefines`, `Proofs.SM9EncRefinesDec`,
`Proofs.SM9EncRefinesRound`.
-/
import GmVerif.Proofs.SM9EncRefinesRound
import GmVerif.Thm.C10
namespace GmVerif.Thm.C10b
open GmVerif GmVerif.Impl.SM9
open GmVerif.Proofs.SM9Bridge (dense TowerDense PairingRefines InG2)
open GmVerif.Proofs.SM9Tower (Canon12)
open GmVerif.Proofs.SM9Algebra (PairingFacts)
open GmVerif.Thm.C13c (Valid toSpec)
open GmVerif.Thm.C13d (Valid2 toSpec2)
open GmVerif.Spec.SM9 (curve N p)
open GmVerif.Gen.SM9 (N_MINUS_ONE)
open GmVerif.Thm.SpecSM9 (exKe exIdB exDeB exMsgE exRE)

/-! ## 0 — C10 without `hpm` -/

/-- `encrypt` does not panic for |M| ≤ 255 (the empty message included) -/
theorem encrypt_no_panic (m : Sm9EncMasterKey) (idb data : List UInt8) (cands : List (List UInt8))
    (hlen : data.length ≤ 255) : m.encrypt idb data cands ≠ .panic :=
  Thm.C10.encrypt_no_panic m idb data cands Thm.C13c.point_mul_total hlen
example (m : Sm9EncMasterKey) : m.encrypt [] [] [] ≠ .panic := encrypt_no_panic m [] [] [] (by decide)

/-- a message longer than 255 bytes: the model PANICS unless the candidates run out first -/
theorem encrypt_long_panics (m : Sm9EncMasterKey) (idb data : List UInt8) (cands : List (List UInt8))
    (hlen : 255 < data.length) :
    m.encrypt idb data cands = .panic ∨ m.encrypt idb data cands = .err "rng-exhausted" :=
  Thm.C10.encrypt_long_panics m idb data cands Thm.C13c.point_mul_total hlen
example : 255 < (List.replicate 256 (0 : UInt8)).length := by decide +kernel

/-! ## 1 — `Fp12::pow`, the sampler -/

/-- from `TowerDense`: for a canonical base and e ≤ N − 1, `Fp12::pow` returns (no panic) a canonical element denoting
the specification's power, and its 384 octets are the specification's -/
theorem dense_pow (TD : TowerDense) (a : Fp12) (ha : Canon12 a) (e : Nat) (he : e ≤ N - 1) :
    ∃ r, a.pow e = .ok r ∧ Canon12 r ∧ dense r = Spec.SM9.Fp12.pow (dense a) e
      ∧ r.to_bytes_be = Spec.SM9.Fp12.toBytes (Spec.SM9.Fp12.pow (dense a) e) :=
  Proofs.SM9EncRefinesBase.dense_pow TD a ha e he
example : Canon12 Fp12.one ∧ (5 : Nat) ≤ N - 1 := ⟨Proofs.SM9EncRefinesBase.canon_one, by decide⟩

/-- the acceptance set of `sm9_random_u256(N − 1)`: r < N − 1 and the low 64 bits of r not all zero (the code's
`ret >= [1, 0, 0, 0]` is the array order from limb 0).  In particular 1 ≤ r ≤ N − 2; N − 1 and every multiple of 2^64 are
never drawn. -/
abbrev Accept (r : Nat) : Prop := Proofs.SM9EncRefinesBase.Accept r
example (r : Nat) : Accept r ↔ r < N - 1 ∧ r % 2 ^ 64 ≠ 0 := Iff.rfl
example : Accept 1 ∧ Accept exRE ∧ ¬ Accept 0 ∧ ¬ Accept (N - 1) ∧ ¬ Accept (2 ^ 64) := by decide

/-- the first accepted candidate and the candidates after it -/
abbrev firstAccepted := Proofs.SM9EncRefinesBase.firstAccepted
example : firstAccepted [] = none := rfl
example (c : List UInt8) (cs : List (List UInt8)) :
    firstAccepted (c :: cs) = if Accept (beNat c) then some (beNat c, cs) else firstAccepted cs := rfl

/-- `sm9_random_u256(N − 1)` over a list of candidates -/
theorem sampler_refines (cands : List (List UInt8)) : sm9_random_u256 N_MINUS_ONE cands = firstAccepted cands :=
  Proofs.SM9EncRefinesBase.sampler_eq cands
example : sm9_random_u256 N_MINUS_ONE [natBE 32 0, natBE 32 (2 ^ 64), natBE 32 exRE, natBE 32 5]
    = some (exRE, [natBE 32 5]) := by decide +kernel

/-! ## 2 — encryption -/

/-- Q_B = [H1(ID_B ‖ 03)]P1 + Ppub-e -/
abbrev QB (Ppube : Spec.EC.Pt) (idb : List UInt8) : Spec.EC.Pt := Proofs.SM9EncRefines.QB Ppube idb
example (Ppube : Spec.EC.Pt) (idb : List UInt8) : QB Ppube idb =
    Spec.EC.add curve (Spec.EC.mul curve (Spec.SM9.H1 (idb ++ [Spec.SM9.hidEnc])) Spec.SM9.P1) Ppube := rfl

/-- GM/T 0044.4 §7.2 over a list of candidates for r: candidates outside `Accept` are skipped; an accepted r is used and
logged; when the standard says "return to A2" (K1 all zero: `encryptWith` = `none`) the next candidate is taken;
`none` = candidates exhausted -/
abbrev specEncLoop := Proofs.SM9EncRefines.specEncLoop
example (Ppube : Spec.EC.Pt) (idb msg : List UInt8) (used : List Nat) : specEncLoop Ppube idb msg [] used = none := rfl
example (Ppube : Spec.EC.Pt) (idb msg c : List UInt8) (cs : List (List UInt8)) (used : List Nat) :
    specEncLoop Ppube idb msg (c :: cs) used =
      if Accept (beNat c) then
        match Spec.SM9.encryptWith Ppube idb msg (beNat c) with
        | some ct => some ⟨ct, used ++ [beNat c], cs⟩
        | none => specEncLoop Ppube idb msg cs (used ++ [beNat c])
      else specEncLoop Ppube idb msg cs used := rfl

/-- THE PROPERTY (encryption): for every valid representation of the master public key, every identity, every message of
1..255 bytes and every list of candidates, `encrypt` returns EXACTLY the result of the standard's loop — the octets
C1 ‖ C3 ‖ C2 of `Spec.SM9.encryptWith` for the accepted r, the scalars logged, the candidates left — and
`rng-exhausted` when the standard's loop finds no r; it never panics.
`hfin` (C1 = [r]Q_B is never the point at infinity) holds for an honest key: `encrypt_refines_honest`. -/
theorem encrypt_refines (PR : PairingRefines) (TD : TowerDense) (m : Sm9EncMasterKey) (hv : Valid m.ppube)
    (idb data : List UInt8) (hne : data ≠ []) (hlen : data.length ≤ 255)
    (hfin : ∀ r, Accept r → Spec.EC.mul curve r (QB (toSpec m.ppube) idb) ≠ none)
    (cands : List (List UInt8)) :
    m.encrypt idb data cands =
      match specEncLoop (toSpec m.ppube) idb data cands [] with
      | some res => .ok res
      | none => .err "rng-exhausted" :=
  Proofs.SM9EncRefines.encrypt_refines PR TD m hv idb data hne hlen hfin cands

/-- … with Ppub-e = [ke]P1 and an identity that has a private key (H1(ID_B ‖ 03) + ke ≢ 0 mod N) -/
theorem encrypt_refines_honest (PR : PairingRefines) (TD : TowerDense) (ke : Nat) (ppube : Point) (hv : Valid ppube)
    (hpp : toSpec ppube = Spec.SM9.encMasterPub ke) (idb data : List UInt8)
    (hext : (Spec.SM9.H1 (idb ++ [Spec.SM9.hidEnc]) + ke) % N ≠ 0) (hne : data ≠ []) (hlen : data.length ≤ 255)
    (cands : List (List UInt8)) :
    (⟨ke, ppube⟩ : Sm9EncMasterKey).encrypt idb data cands =
      match specEncLoop (Spec.SM9.encMasterPub ke) idb data cands [] with
      | some res => .ok res
      | none => .err "rng-exhausted" := by
  have h := encrypt_refines PR TD ⟨ke, ppube⟩ hv idb data hne hlen
    (Proofs.SM9EncRefinesRound.hfin_of_key ke ppube hpp idb _ hext) cands
  rw [show toSpec (⟨ke, ppube⟩ : Sm9EncMasterKey).ppube = Spec.SM9.encMasterPub ke from hpp] at h
  exact h

/-- non-vacuity, GM/T 0044.5 Annex C: master key ke, identity "Bob", message "Chinese IBE standard", r of the Annex as
the only candidate: the model returns the standard's ciphertext for that r (or `rng-exhausted` if K1 were all zero) —
every hypothesis except PR, TD is discharged by evaluation -/
theorem ex_ext : (Spec.SM9.H1 (exIdB ++ [Spec.SM9.hidEnc]) + exKe) % N ≠ 0 := by decide +kernel
/-- a single accepted candidate -/
theorem specEncLoop_single (Ppube : Spec.EC.Pt) (idb msg c : List UInt8) (h : Accept (beNat c)) :
    specEncLoop Ppube idb msg [c] [] =
      match Spec.SM9.encryptWith Ppube idb msg (beNat c) with
      | some ct => some ⟨ct, [beNat c], []⟩
      | none => none := by
  show (if Accept (beNat c) then _ else _) = _
  rw [if_pos h]
  cases Spec.SM9.encryptWith Ppube idb msg (beNat c) <;> rfl
theorem ex_re_bytes : beNat (natBE 32 exRE) = exRE := by decide +kernel
example (PR : PairingRefines) (TD : TowerDense) : ∃ P, Point.g_mul exKe = .ok P ∧
    (⟨exKe, P⟩ : Sm9EncMasterKey).encrypt exIdB exMsgE [natBE 32 exRE] =
      match Spec.SM9.encryptWith (Spec.SM9.encMasterPub exKe) exIdB exMsgE exRE with
      | some ct => .ok ⟨ct, [exRE], []⟩
      | none => .err "rng-exhausted" := by
  obtain ⟨P, h1, h2, h3⟩ := Thm.C13c.g_mul_correct exKe (by decide)
  refine ⟨P, h1, ?_⟩
  have ha : Accept (beNat (natBE 32 exRE)) := by rw [ex_re_bytes]; decide
  rw [encrypt_refines_honest PR TD exKe P h2 h3 exIdB exMsgE ex_ext (by decide) (by decide),
    specEncLoop_single _ _ _ _ ha, ex_re_bytes]
  cases Spec.SM9.encryptWith (Spec.SM9.encMasterPub exKe) exIdB exMsgE exRE <;> rfl

/-- the same in the "accepted r" form: a successful `encrypt` means that the LAST logged scalar r is in the acceptance set,
the output is `encryptWith` for that r, and every scalar logged before it was accepted by the sampler and sent back to A2 by
the standard (K1 all zero); conversely such a run of the standard's loop is reproduced by the model -/
theorem encrypt_ok_iff (PR : PairingRefines) (TD : TowerDense) (m : Sm9EncMasterKey) (hv : Valid m.ppube)
    (idb data : List UInt8) (hne : data ≠ []) (hlen : data.length ≤ 255)
    (hfin : ∀ r, Accept r → Spec.EC.mul curve r (QB (toSpec m.ppube) idb) ≠ none)
    (cands : List (List UInt8)) (res : Rand (List UInt8)) :
    (m.encrypt idb data cands = .ok res ↔ specEncLoop (toSpec m.ppube) idb data cands [] = some res)
    ∧ (m.encrypt idb data cands = .ok res →
        ∃ r skipped, res.used = skipped ++ [r] ∧ Accept r
          ∧ Spec.SM9.encryptWith (toSpec m.ppube) idb data r = some res.val
          ∧ (∀ s ∈ skipped, Accept s ∧ Spec.SM9.encryptWith (toSpec m.ppube) idb data s = none)
          ∧ res.used.length + res.rest.length ≤ cands.length) := by
  have h := encrypt_refines PR TD m hv idb data hne hlen hfin cands
  have hiff : m.encrypt idb data cands = .ok res ↔ specEncLoop (toSpec m.ppube) idb data cands [] = some res := by
    rw [h]
    cases specEncLoop (toSpec m.ppube) idb data cands [] with
    | none => simp
    | some r => simp
  refine ⟨hiff, fun hok => ?_⟩
  obtain ⟨r, sk, h1, h2, h3, h4, h5⟩ := Proofs.SM9EncRefines.specEncLoop_some _ _ _ _ _ _ (hiff.1 hok)
  exact ⟨r, sk, by simpa using h1, h2, h3, h4, by simpa using h5⟩

example : ∀ r, Accept r → 1 ≤ r ∧ r < N - 1 := fun _ h => Proofs.SM9EncRefinesBase.accept_range h

/-- THE EMPTY MESSAGE (difference, stated exactly).  The standard never produces a ciphertext for M = ε … -/
theorem encryptWith_empty (Ppube : Spec.EC.Pt) (idb : List UInt8) (r : Nat) :
    Spec.SM9.encryptWith Ppube idb [] r = none := by
  simp [Spec.SM9.encryptWith]

/-- … while the model takes the FIRST accepted candidate, does not test K1 (no retry) and returns
C1 ‖ MAC(K2, ε) with K2 = KDF(C1 ‖ w ‖ ID_B, 32) — 97 octets, which its own `decrypt` refuses (`InvalidFieldLen`) -/
theorem encrypt_empty (PR : PairingRefines) (TD : TowerDense) (m : Sm9EncMasterKey) (hv : Valid m.ppube)
    (idb : List UInt8) (hfin : ∀ r, Accept r → Spec.EC.mul curve r (QB (toSpec m.ppube) idb) ≠ none)
    (cands : List (List UInt8)) :
    m.encrypt idb [] cands =
      match firstAccepted cands with
      | none => .err "rng-exhausted"
      | some (r, rest) =>
        let C1 := Spec.EC.mul curve r (QB (toSpec m.ppube) idb)
        let z := Spec.SM9.pointBytes C1
          ++ Spec.SM9.Fp12.toBytes (Spec.SM9.Fp12.pow (Spec.SM9.pairing (toSpec m.ppube) Spec.SM9.P2) r) ++ idb
        .ok ⟨Spec.SM9.encodePoint C1 ++ Spec.SM9.mac (Spec.SM9.kdf z 32) [], [r], rest⟩ :=
  Proofs.SM9EncRefines.encrypt_empty PR TD m hv idb hfin cands
example : firstAccepted [natBE 32 exRE] = some (exRE, []) := by decide +kernel

/-! ## 3 — decryption -/

/-- the two coordinates of the C1 field (octets 1..32 and 33..64 of the ciphertext) as big-endian numbers -/
abbrev c1X (ct : List UInt8) : Nat := Proofs.SM9EncRefinesDec.c1X ct
abbrev c1Y (ct : List UInt8) : Nat := Proofs.SM9EncRefinesDec.c1Y ct
/-- both are reduced modulo p -/
abbrev CanonC1 (ct : List UInt8) : Prop := Proofs.SM9EncRefinesDec.CanonC1 ct
example (ct : List UInt8) : c1X ct = beNat ((ct.drop 1).take 32) ∧ c1Y ct = beNat ((ct.drop 33).take 32) := ⟨rfl, rfl⟩
example (ct : List UInt8) : CanonC1 ct ↔ c1X ct < p ∧ c1Y ct < p := Iff.rfl

/-- B2–B6 of §7.3 for a given point C1 of the curve, with the KDF keyed by the octet string `c1oct` -/
abbrev decTail := Proofs.SM9EncRefinesDec.decTail
example (de : Spec.SM9.Pt2) (idb ct : List UInt8) (C1 : Nat × Nat) (c1oct msg : List UInt8) :
    decTail de idb ct C1 c1oct msg ↔
      let C2 := ct.drop 97
      let C3 := (ct.drop 65).take 32
      let K := Spec.SM9.kdf (c1oct ++ Spec.SM9.Fp12.toBytes (Spec.SM9.pairing (some C1) de) ++ idb) (C2.length + 32)
      (K.take C2.length).all (· == 0) = false ∧ Spec.SM9.mac (K.drop C2.length) C2 = C3
        ∧ msg = Spec.SM9.xorBytes C2 (K.take C2.length) := Iff.rfl

/-- THE PROPERTY (decryption): for every private key in G2, every identity and EVERY byte string of at most 352 octets
(C1 ‖ C3 ‖ C2 with at most 255 message octets — the domain of C10) the model returns a plaintext exactly when the standard
does, and the same one; otherwise it returns an error (never panics: `Thm.C10.decrypt_total`).  Needs `PairingRefines` only.
(Before the repair of key.rs this failed for C1 coordinates ≥ p: `Thm.C10.decrypt_noncanonical_c1`.) -/
theorem decrypt_refines (PR : PairingRefines) (key : Sm9EncKey) (hde : InG2 key.de) (idb ct msg : List UInt8)
    (hlen : ct.length ≤ 352) :
    key.decrypt idb ct = .ok msg ↔ Spec.SM9.decrypt (toSpec2 key.de) idb ct = some msg :=
  Proofs.SM9EncRefinesDec.decrypt_refines PR key hde idb ct msg hlen

/-- EVERY byte string, no side condition: the model decrypts to `msg` exactly when the standard decrypts to `msg` and the
ciphertext has at most 352 octets.  The length limit is the one remaining difference: for |C| > 352 (more than 255 message
octets) the model answers `InvalidFieldLen` (`decrypt_long`) while the standard has no such limit. -/
theorem decrypt_exact (PR : PairingRefines) (key : Sm9EncKey) (hde : InG2 key.de) (idb ct msg : List UInt8) :
    key.decrypt idb ct = .ok msg ↔
      (Spec.SM9.decrypt (toSpec2 key.de) idb ct = some msg ∧ ct.length ≤ 352) :=
  Proofs.SM9EncRefinesDec.decrypt_exact PR key hde idb ct msg

/-- soundness (every byte string) and completeness (at most 352 octets) separately -/
theorem decrypt_sound (PR : PairingRefines) (key : Sm9EncKey) (hde : InG2 key.de) (idb ct msg : List UInt8)
    (h : key.decrypt idb ct = .ok msg) : Spec.SM9.decrypt (toSpec2 key.de) idb ct = some msg :=
  ((decrypt_exact PR key hde idb ct msg).1 h).1
theorem decrypt_complete (PR : PairingRefines) (key : Sm9EncKey) (hde : InG2 key.de) (idb ct msg : List UInt8)
    (hlen : ct.length ≤ 352) (h : Spec.SM9.decrypt (toSpec2 key.de) idb ct = some msg) : key.decrypt idb ct = .ok msg :=
  (decrypt_exact PR key hde idb ct msg).2 ⟨h, hlen⟩

/-- when the standard reports an error (any byte string) the model returns an error — never a plaintext, never a panic -/
theorem decrypt_refines_none (PR : PairingRefines) (key : Sm9EncKey) (hde : InG2 key.de) (idb ct : List UInt8)
    (h : Spec.SM9.decrypt (toSpec2 key.de) idb ct = none) : ∃ e, key.decrypt idb ct = .err e := by
  cases hd : key.decrypt idb ct with
  | ok m => have := decrypt_sound PR key hde idb ct m hd; rw [h] at this; cases this
  | err e => exact ⟨e, rfl⟩
  | panic => exact absurd hd (Thm.C10.decrypt_total key idb ct)

/-- the one remaining difference, exactly: more than 352 octets are `InvalidFieldLen` in the model, whatever the standard
says (its `encrypt` cannot produce them either: `encrypt_long_panics`) -/
theorem decrypt_long (key : Sm9EncKey) (idb ct : List UInt8) (h : 352 < ct.length) :
    key.decrypt idb ct = .err "InvalidFieldLen" := Proofs.SM9EncRefinesDec.model_rejects_long key idb ct h

/-- the model on EVERY ciphertext of 98..352 octets, in the standard's terms: success iff the prefix is 04, both
coordinates are field elements, the point is on the curve, and B2–B6 hold -/
theorem decrypt_model (PR : PairingRefines) (key : Sm9EncKey) (hde : InG2 key.de) (idb ct msg : List UInt8)
    (h1 : 98 ≤ ct.length) (h2 : ct.length ≤ 352) :
    key.decrypt idb ct = .ok msg ↔
      ct.head? = some 0x04 ∧ CanonC1 ct ∧ Spec.EC.onCurve curve (some (c1X ct, c1Y ct)) = true
      ∧ decTail (toSpec2 key.de) idb ct (c1X ct, c1Y ct) ((ct.take 65).drop 1) msg :=
  Proofs.SM9EncRefinesDec.decrypt_model PR key hde idb ct msg h1 h2

/-- agreement on non-canonical encodings (GM/T 0044.1 §6.2.3: a field element is an integer in [0, p − 1]): a C1 coordinate
≥ p is rejected by the standard and by the model (the fixed code) — under every key, no hypothesis -/
theorem noncanonical_rejected (key : Sm9EncKey) (de : Spec.SM9.Pt2) (idb ct : List UInt8) (h : ¬ CanonC1 ct) :
    Spec.SM9.decrypt de idb ct = none ∧ (∃ e, key.decrypt idb ct = .err e)
    ∧ (98 ≤ ct.length → ct.length ≤ 352 → ct.head? = some 0x04 → key.decrypt idb ct = .err "InvalidPoint") :=
  ⟨Proofs.SM9EncRefinesDec.spec_rejects_noncanonical de idb ct h,
    Proofs.SM9EncRefinesDec.model_rejects_noncanonical key idb ct h⟩
example : ¬ CanonC1 Thm.C10.noncanonicalCt := by decide +kernel

/-- the standard's side on every byte string -/
theorem spec_decrypt_iff (de : Spec.SM9.Pt2) (idb ct msg : List UInt8) :
    Spec.SM9.decrypt de idb ct = some msg ↔
      98 ≤ ct.length ∧ ct.head? = some 0x04 ∧ CanonC1 ct
      ∧ Spec.EC.onCurve curve (some (c1X ct, c1Y ct)) = true
      ∧ decTail de idb ct (c1X ct, c1Y ct) ((ct.take 65).drop 1) msg :=
  Proofs.SM9EncRefinesDec.spec_decrypt_iff de idb ct msg

/-- both kinds of byte string exist inside the window: non-canonical coordinates, canonical ones; p < 2^256, so non-reduced
32-byte encodings exist -/
example : ¬ CanonC1 (4 :: List.replicate 97 0xFF) ∧ CanonC1 (4 :: List.replicate 97 0) ∧ p < 2 ^ 256
    ∧ (4 :: List.replicate 97 (0 : UInt8)).length ≤ 352 := by decide +kernel
/-- non-vacuity of `InG2`: the key the model extracts for "Bob" under the Annex master key lies in G2 and is the Annex's -/
example (ppube : Point) : ∃ key, (⟨exKe, ppube⟩ : Sm9EncMasterKey).extract_key exIdB = .ok (some key)
    ∧ InG2 key.de ∧ toSpec2 key.de = exDeB := by
  obtain ⟨r, h1, h2, _⟩ := (Thm.C13d.extract_enc_refines ⟨exKe, ppube⟩ (show exKe < N by decide +kernel) exIdB).1
  rw [Thm.SpecSM9.ex_extractEnc] at h2
  cases r with
  | none => simp at h2
  | some key =>
    have h1' := h1
    rw [Proofs.SM9G2Impl.extract_key_eq] at h1'
    exact ⟨key, h1, (Proofs.SM9EncRefinesRound.extracted_key_facts exKe (by decide +kernel) ppube exIdB _ key h1').1,
      by simpa using h2⟩

/-! ## 4 — round trip on the model -/

/-- what the model encrypts (any candidates), the model decrypts with the key it extracts: master key ke ∈ [1, N − 1], any
valid representation of Ppub-e = [ke]P1, any identity for which extraction is defined, any message of 1..255 octets -/
theorem encrypt_then_decrypt_impl (PR : PairingRefines) (TD : TowerDense) (F : PairingFacts) (ke : Nat)
    (hke : 1 ≤ ke ∧ ke < N) (ppube : Point) (hv : Valid ppube) (hpp : toSpec ppube = Spec.SM9.encMasterPub ke)
    (idb data : List UInt8) (hne : data ≠ []) (hlen : data.length ≤ 255) (key : Sm9EncKey)
    (hkey : (⟨ke, ppube⟩ : Sm9EncMasterKey).extract_key idb = .ok (some key))
    (cands : List (List UInt8)) (ct : List UInt8) (used : List Nat) (rest : List (List UInt8))
    (henc : (⟨ke, ppube⟩ : Sm9EncMasterKey).encrypt idb data cands = .ok ⟨ct, used, rest⟩) :
    key.decrypt idb ct = .ok data :=
  (Proofs.SM9EncRefinesRound.encrypt_then_decrypt PR TD F ke hke ppube hv hpp idb data hne hlen key hkey cands ct used
    rest henc).1

/-- with the master public key the model generates (`Point::g_mul(ke)`) -/
theorem encrypt_then_decrypt_own_key (PR : PairingRefines) (TD : TowerDense) (F : PairingFacts) (ke : Nat)
    (hke : 1 ≤ ke ∧ ke < N) (idb data : List UInt8) (hne : data ≠ []) (hlen : data.length ≤ 255) :
    ∃ P, Point.g_mul ke = .ok P ∧ ∀ key, (⟨ke, P⟩ : Sm9EncMasterKey).extract_key idb = .ok (some key) →
      ∀ cands ct used rest, (⟨ke, P⟩ : Sm9EncMasterKey).encrypt idb data cands = .ok ⟨ct, used, rest⟩ →
        key.decrypt idb ct = .ok data := by
  have hN : N < 2 ^ 256 := by decide
  obtain ⟨P, h1, h2, h3⟩ := Thm.C13c.g_mul_correct ke (by omega)
  exact ⟨P, h1, fun key hkey cands ct used rest henc =>
    encrypt_then_decrypt_impl PR TD F ke hke P h2 h3 idb data hne hlen key hkey cands ct used rest henc⟩

/-- non-vacuity, Annex C: the hypotheses on ke, the identity and the message hold; the key exists -/
example (PR : PairingRefines) (TD : TowerDense) (F : PairingFacts) : ∃ P key, Point.g_mul exKe = .ok P
    ∧ (⟨exKe, P⟩ : Sm9EncMasterKey).extract_key exIdB = .ok (some key)
    ∧ ∀ cands ct used rest, (⟨exKe, P⟩ : Sm9EncMasterKey).encrypt exIdB exMsgE cands = .ok ⟨ct, used, rest⟩ →
        key.decrypt exIdB ct = .ok exMsgE := by
  obtain ⟨P, h1, h2⟩ := encrypt_then_decrypt_own_key PR TD F exKe (by decide +kernel) exIdB exMsgE (by decide)
    (by decide)
  obtain ⟨r, h3, h4, _⟩ := (Thm.C13d.extract_enc_refines ⟨exKe, P⟩ (show exKe < N by decide +kernel) exIdB).1
  rw [Thm.SpecSM9.ex_extractEnc] at h4
  cases r with
  | none => simp at h4
  | some key => exact ⟨P, key, h1, h3, h2 key h3⟩

end GmVerif.Thm.C10b
