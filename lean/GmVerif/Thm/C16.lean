/-
Property C16 (hash-to-range): `mod_n_from_hash` (the fixed code) returns (Ha mod (N−1)) + 1 ∈ [1, N−1] for EVERY input
(Ha = the first 40 bytes, big-endian; all bytes when fewer), the Barrett quotient estimate that makes its two correction
rounds sufficient, and the H1 / H2 framing against GM/T 0044.2 §5.4.2 (`Spec.SM9.H1`, `Spec.SM9.H2`).
Only property theorems here; all lemmas live in `GmVerif.Proofs.SM9Field`.  N := `Spec.SM9.N`.
-/
import GmVerif.Proofs.SM9Field
namespace GmVerif.Thm.C16
open GmVerif

/-- THE PROPERTY (hash-to-range): for EVERY input the result is (Ha mod (N−1)) + 1, Ha = the first 40 bytes read as a
big-endian integer (all the bytes when there are fewer than 40: the fixed code no longer panics on short input) -/
theorem mod_n_from_hash_correct' (ha : List UInt8) :
    Impl.SM9.mod_n_from_hash ha = .ok (beNat (ha.take 40) % (Spec.SM9.N - 1) + 1) := by
  rw [← Proofs.SM9Field.N_eq]; exact Proofs.SM9Field.mod_n_from_hash_correct' ha

theorem mod_n_from_hash_correct (ha : List UInt8) (_h : 40 ≤ ha.length) :
    Impl.SM9.mod_n_from_hash ha = .ok (beNat (ha.take 40) % (Spec.SM9.N - 1) + 1) := mod_n_from_hash_correct' ha

/-- … which lies in [1, N−1] -/
theorem mod_n_from_hash_range (ha : List UInt8) (h : 40 ≤ ha.length) :
    ∃ v, Impl.SM9.mod_n_from_hash ha = .ok v ∧ 1 ≤ v ∧ v ≤ Spec.SM9.N - 1 :=
  ⟨_, mod_n_from_hash_correct ha h, Nat.le_add_left 1 _, Nat.mod_lt _ (by decide)⟩

theorem mod_n_from_hash_range' (ha : List UInt8) :
    ∃ v, Impl.SM9.mod_n_from_hash ha = .ok v ∧ 1 ≤ v ∧ v ≤ Spec.SM9.N - 1 :=
  ⟨_, mod_n_from_hash_correct' ha, Nat.le_add_left 1 _, Nat.mod_lt _ (by decide)⟩

/-- fewer than 40 bytes (used to panic in the slice indexing): read as the integer they encode -/
theorem mod_n_from_hash_short (ha : List UInt8) (h : ha.length < 40) :
    Impl.SM9.mod_n_from_hash ha = .ok (beNat ha % (Spec.SM9.N - 1) + 1) := by
  rw [← Proofs.SM9Field.N_eq]; exact Proofs.SM9Field.mod_n_from_hash_short ha h

/-- regression witness for the defect that was fixed (Ha = N−1 must give 1, not 0), the extreme inputs, and the cut at
40 bytes (bytes 41… are ignored; 39, 1 and 0 bytes are read as the integer they encode) -/
example : Impl.SM9.mod_n_from_hash (natBE 40 (Spec.SM9.N - 1)) = .ok 1
    ∧ Impl.SM9.mod_n_from_hash (natBE 40 (Spec.SM9.N - 2)) = .ok (Spec.SM9.N - 1)
    ∧ Impl.SM9.mod_n_from_hash (natBE 40 (2 ^ 320 - 1)) = .ok ((2 ^ 320 - 1) % (Spec.SM9.N - 1) + 1)
    ∧ Impl.SM9.mod_n_from_hash (natBE 40 0) = .ok 1
    ∧ Impl.SM9.mod_n_from_hash (natBE 40 (3 * (Spec.SM9.N - 1) - 1) ++ [0xff]) = .ok (Spec.SM9.N - 1)
    ∧ Impl.SM9.mod_n_from_hash (natBE 39 0) = .ok 1
    ∧ Impl.SM9.mod_n_from_hash [] = .ok 1
    ∧ Impl.SM9.mod_n_from_hash [0x05] = .ok 6 := by decide +kernel
example : (natBE 40 (2 ^ 320 - 1)).length = 40 ∧ beNat ((natBE 40 (2 ^ 320 - 1)).take 40) = 2 ^ 320 - 1 := by
  decide +kernel

/-- the quotient-estimate bound that makes two correction rounds sufficient: q̂ ≤ q ≤ q̂ + 2 -/
theorem barrett_estimate (z : Nat) (hz : z < 2 ^ 320) :
    let q := z / (Spec.SM9.N - 1)
    let qh := ((z / 2 ^ 192) * (2 ^ 512 / (Spec.SM9.N - 1))) / 2 ^ 320
    qh ≤ q ∧ q ≤ qh + 2 := by
  intro q qh
  have h := Proofs.SM9Field.barrett_estimate_lit z hz
  rw [Proofs.SM9Field.N_m1_mu, Proofs.SM9Field.N_m1, Proofs.SM9Field.N_eq] at h
  exact h
/-- the estimate is what the code computes (`qhat` = the model's `q`), and it is not always exact: z = N − 1 has
q = 1, q̂ = 0 -/
example : (Spec.SM9.N - 1) / (Spec.SM9.N - 1) = 1
    ∧ (((Spec.SM9.N - 1) / 2 ^ 192) * (2 ^ 512 / (Spec.SM9.N - 1))) / 2 ^ 320 = 0
    ∧ Proofs.SM9Field.qhat (Spec.SM9.N - 1) = 0 := by decide +kernel

/-! ### H1 / H2 framing -/

/-- the SM3 used by the SM9 model is the standard's hash (`Thm.C01.sm3_refines_unguarded`) -/
theorem sm3_eq (m : List UInt8) : Impl.SM9.sm3 m = Spec.SM3.hash m := Proofs.SM9Field.sm3_eq m

/-- `sm9_u256_hash1(id, hid)` = H1(ID ‖ hid, N) of GM/T 0044.2 §5.4.2.2, for every id and hid: never panics -/
theorem hash1_refines (id : List UInt8) (hid : UInt8) :
    Impl.SM9.sm9_u256_hash1 id hid = .ok (Spec.SM9.H1 (id ++ [hid])) := Proofs.SM9Field.hash1_refines id hid

/-- `sm9_u256_hash2(data, w)` = H2(M ‖ w, N) -/
theorem hash2_refines (data w : List UInt8) :
    Impl.SM9.sm9_u256_hash2 data w = .ok (Spec.SM9.H2 (data ++ w)) := Proofs.SM9Field.hash2_refines data w

example : Impl.SM9.sm9_u256_hash2 [0x01, 0x02] [0x03] = .ok (Spec.SM9.H2 [0x01, 0x02, 0x03]) := hash2_refines _ _

/-- GM/T 0044.2 Annex A: H1("Alice" ‖ 01, N) = 2ACC468C 3926B0BD B2767E99 FF26E084 DE9CED8D BC7D5FBF 418027B6 67862FAB
(kernel evaluation of the specification); by `hash1_refines` the model returns the same value -/
theorem spec_H1_alice : Spec.SM9.H1 [0x41, 0x6c, 0x69, 0x63, 0x65, 0x01]
    = 0x2ACC468C3926B0BDB2767E99FF26E084DE9CED8DBC7D5FBF418027B667862FAB := by decide +kernel
example : Impl.SM9.sm9_u256_hash1 [0x41, 0x6c, 0x69, 0x63, 0x65] 0x01
    = .ok 0x2ACC468C3926B0BDB2767E99FF26E084DE9CED8DBC7D5FBF418027B667862FAB :=
  (hash1_refines [0x41, 0x6c, 0x69, 0x63, 0x65] 0x01).trans (congrArg Outcome.ok spec_H1_alice)

end GmVerif.Thm.C16
