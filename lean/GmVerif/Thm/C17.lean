/-
C17: SM9 key exchange in the model of gm-sm9/src/key.rs — a received point off the curve is rejected in both roles, the
agreed key is the KDF of exactly the values the code computes, it has the requested length, step 2a is a single pass and
the retry loop of step 1b is bounded by the candidates it consumes.
Only the property theorems; all work is in `GmVerif.Proofs.SM9Logic`.

Hypothesis discharged elsewhere (arithmetic of the point code): `hpm` — `Point::point_mul` returns for every 256-bit
scalar (its Booth table index is in range).
-/
import GmVerif.Proofs.SM9Logic

namespace GmVerif.Thm.C17
open GmVerif GmVerif.Impl.SM9
open GmVerif.Gen.SM9 (N_MINUS_ONE HID_EXCH)

/-! ### a received point off the curve -/

/-- responder: RA off the curve, klen ≥ 1 and a usable candidate ⇒ `InvalidPoint` -/
theorem exch_1b_off_curve (m : Sm9EncMasterKey) (ida idb : List UInt8) (key : Sm9EncKey) (ra : Point) (klen : Nat)
    (cands : List (List UInt8))
    (hpm : ∀ (P : Point) (k : Nat), k < 2 ^ 256 → ∃ R, P.point_mul k = .ok R)
    (hk : 1 ≤ klen) (hc : ∃ x, sm9_random_u256 N_MINUS_ONE cands = some x)
    (h : ra.is_on_curve = false) :
    ∃ e, exch_step_1b m ida idb key ra klen cands = .err e := by
  obtain ⟨x, hx⟩ := hc
  rw [Proofs.SM9Logic.exch_1b_off_curve m ida idb key ra klen cands hpm h, if_neg (by omega), hx]
  exact ⟨_, rfl⟩

/-- … for every klen and every candidate list the result is an error, of exactly this kind -/
theorem exch_1b_off_curve_kind (m : Sm9EncMasterKey) (ida idb : List UInt8) (key : Sm9EncKey) (ra : Point)
    (klen : Nat) (cands : List (List UInt8))
    (hpm : ∀ (P : Point) (k : Nat), k < 2 ^ 256 → ∃ R, P.point_mul k = .ok R)
    (h : ra.is_on_curve = false) :
    exch_step_1b m ida idb key ra klen cands =
      if klen = 0 then .err "KdfHashError" else
      match sm9_random_u256 N_MINUS_ONE cands with
      | none => .err "rng-exhausted"
      | some _ => .err "InvalidPoint" :=
  Proofs.SM9Logic.exch_1b_off_curve m ida idb key ra klen cands hpm h

/-- the hypotheses are satisfiable: (0, 0) is off the curve, the 32-byte string 00…01 is a usable candidate -/
def one32 : List UInt8 := List.replicate 31 0 ++ [1]
example : (⟨0, 0, Gen.SM9.MODP_MONT_ONE⟩ : Point).is_on_curve = false := by decide +kernel
example : sm9_random_u256 N_MINUS_ONE [one32] = some (1, []) := by decide +kernel
example : (POINT_MONT_P1.point_mul 1).isOk = true := by decide +kernel

/-- initiator: RB off the curve ⇒ `InvalidPoint` (the first test of the function) -/
theorem exch_2a_off_curve (m : Sm9EncMasterKey) (ida idb : List UInt8) (key : Sm9EncKey) (ra_ : Nat) (ra rb : Point)
    (klen : Nat) (h : rb.is_on_curve = false) :
    ∃ e, exch_step_2a m ida idb key ra_ ra rb klen = .err e := by
  rw [Proofs.SM9Logic.exch_2a_eq, if_pos h]; exact ⟨_, rfl⟩

theorem exch_2a_off_curve_kind (m : Sm9EncMasterKey) (ida idb : List UInt8) (key : Sm9EncKey) (ra_ : Nat)
    (ra rb : Point) (klen : Nat) (h : rb.is_on_curve = false) :
    exch_step_2a m ida idb key ra_ ra rb klen = .err "InvalidPoint" := by
  rw [Proofs.SM9Logic.exch_2a_eq, if_pos h]

example (m : Sm9EncMasterKey) (key : Sm9EncKey) (ra : Point) :
    exch_step_2a m [] [] key 1 ra ⟨0, 0, Gen.SM9.MODP_MONT_ONE⟩ 16 = .err "InvalidPoint" :=
  exch_2a_off_curve_kind _ _ _ _ _ _ _ _ (by decide +kernel)

/-! ### the key formula -/

/-- responder: on success RA is on the curve, RB = [rB]Q_A with Q_A = [H1(ID_A ‖ 02)]P1 + Ppub-e for the accepted
candidate rB (the last logged scalar), and
SKB = KDF(ID_A ‖ ID_B ‖ RA.x‖y ‖ RB.x‖y ‖ g1 ‖ g2 ‖ g3, klen), g1 = e(deB, RA), g2 = e(P2, Ppub)^rB, g3 = g1^rB,
not all zero -/
theorem exch_1b_key_formula (m : Sm9EncMasterKey) (ida idb : List UInt8) (key : Sm9EncKey) (ra : Point) (klen : Nat)
    (cands : List (List UInt8)) (rbp : Point) (sk : List UInt8) (used : List Nat) (rest : List (List UInt8))
    (hs : exch_step_1b m ida idb key ra klen cands = .ok ⟨(rbp, sk), used, rest⟩) :
    klen ≠ 0 ∧ ra.is_on_curve = true ∧
    ∃ h q0 rb g2 g3 skipped,
      sm9_u256_hash1 ida HID_EXCH = .ok h ∧ POINT_MONT_P1.point_mul h = .ok q0 ∧
      1 ≤ rb ∧ rb < N_MINUS_ONE ∧ used = skipped ++ [rb] ∧
      (q0.point_add m.ppube).point_mul rb = .ok rbp ∧
      (sm9_u256_pairing TWIST_POINT_MONT_P2 m.ppube).pow rb = .ok g2 ∧
      (sm9_u256_pairing key.de ra).pow rb = .ok g3 ∧
      sk = kdf (ida ++ idb ++ ra.to_bytes_be.drop 1 ++ rbp.to_bytes_be.drop 1 ++
                (sm9_u256_pairing key.de ra).to_bytes_be ++ g2.to_bytes_be ++ g3.to_bytes_be) klen ∧
      all_zero (sk.take klen) = false := by
  obtain ⟨hk, h, q0, hh, hq, ⟨hon, rb, g2, g3, skp, h1, h2, h3, h4, h5, h6, h7, _, h9⟩, _⟩ :=
    Proofs.SM9Logic.exch_1b_shape m ida idb key ra klen cands rbp sk used rest hs
  exact ⟨hk, hon, h, q0, rb, g2, g3, skp, hh, hq, h1, h2, by simpa using h3, h4, h5, h6, h7, h9⟩

/-- decision logic of step 2a stated outright: RB on the curve, rA ≤ N − 1 (otherwise the `assert!` of `Fp12::pow`
fires), SKA = KDF(ID_A ‖ ID_B ‖ RA ‖ RB ‖ g1' ‖ g2' ‖ g3', klen) with g1' = e(P2, Ppub)^rA, g2' = e(deA, RB),
g3' = g2'^rA, at least klen bytes long and not all zero -/
theorem exch_2a_ok_iff (m : Sm9EncMasterKey) (ida idb : List UInt8) (key : Sm9EncKey) (ra_ : Nat) (ra rb : Point)
    (klen : Nat) (sk : List UInt8) :
    exch_step_2a m ida idb key ra_ ra rb klen = .ok sk ↔
      rb.is_on_curve = true ∧ ∃ g1 g3,
        (sm9_u256_pairing TWIST_POINT_MONT_P2 m.ppube).pow ra_ = .ok g1 ∧
        (sm9_u256_pairing key.de rb).pow ra_ = .ok g3 ∧
        sk = kdf (ida ++ idb ++ ra.to_bytes_be.drop 1 ++ rb.to_bytes_be.drop 1 ++
                  g1.to_bytes_be ++ (sm9_u256_pairing key.de rb).to_bytes_be ++ g3.to_bytes_be) klen ∧
        klen ≤ sk.length ∧ all_zero (sk.take klen) = false :=
  Proofs.SM9Logic.exch_2a_ok_iff m ida idb key ra_ ra rb klen sk

theorem exch_2a_key_formula (m : Sm9EncMasterKey) (ida idb : List UInt8) (key : Sm9EncKey) (ra_ : Nat) (ra rb : Point)
    (klen : Nat) (sk : List UInt8) (hs : exch_step_2a m ida idb key ra_ ra rb klen = .ok sk) :
    ∃ g1 g3,
      (sm9_u256_pairing TWIST_POINT_MONT_P2 m.ppube).pow ra_ = .ok g1 ∧
      (sm9_u256_pairing key.de rb).pow ra_ = .ok g3 ∧
      sk = kdf (ida ++ idb ++ ra.to_bytes_be.drop 1 ++ rb.to_bytes_be.drop 1 ++
                g1.to_bytes_be ++ (sm9_u256_pairing key.de rb).to_bytes_be ++ g3.to_bytes_be) klen := by
  obtain ⟨_, g1, g3, h1, h2, h3, _⟩ := (exch_2a_ok_iff m ida idb key ra_ ra rb klen sk).1 hs
  exact ⟨g1, g3, h1, h2, h3⟩

/-- both sides feed the KDF with the same layout, which is the standard's (`Spec.SM9.exchKey`) once the three pairing
values agree — the KDF itself is the standard's for every usable klen -/
theorem exch_kdf_is_spec (z : List UInt8) (klen : Nat) (h : 1 ≤ klen) (h2 : klen ≤ 32 * (2 ^ 32 - 1)) :
    kdf z klen = Spec.SM9.kdf z klen :=
  Proofs.SM9Logic.kdf_refines z klen h h2

example : kdf [1] 16 = Spec.SM9.kdf [1] 16 := exch_kdf_is_spec _ _ (by decide) (by decide)

/-! ### key length -/

/-- klen ≥ 1 → the returned key has length klen (for klen beyond 32·(2^32 − 1) the KDF output is shorter and
`is_zero(&sk, klen)` panics, so no key is returned) -/
theorem exch_key_length (m : Sm9EncMasterKey) (ida idb : List UInt8) (key : Sm9EncKey) (klen : Nat) (hk : 1 ≤ klen) :
    (∀ (ra : Point) (cands : List (List UInt8)) (rbp : Point) (sk : List UInt8) (used : List Nat)
        (rest : List (List UInt8)),
        exch_step_1b m ida idb key ra klen cands = .ok ⟨(rbp, sk), used, rest⟩ → sk.length = klen) ∧
    (∀ (ra_ : Nat) (ra rb : Point) (sk : List UInt8),
        exch_step_2a m ida idb key ra_ ra rb klen = .ok sk → sk.length = klen) :=
  ⟨fun ra cands rbp sk used rest hs => Proofs.SM9Logic.exch_1b_key_length m ida idb key ra klen cands rbp sk used rest hk hs,
   fun ra_ ra rb sk hs => Proofs.SM9Logic.exch_2a_key_length m ida idb key ra_ ra rb klen sk hk hs⟩

/-- klen = 0 is refused by both roles (1b tests it up front; in 2a the 32-byte KDF output passes `is_zero(&sk, 0)`
vacuously) -/
theorem exch_klen_zero (m : Sm9EncMasterKey) (ida idb : List UInt8) (key : Sm9EncKey) :
    (∀ (ra : Point) (cands : List (List UInt8)), exch_step_1b m ida idb key ra 0 cands = .err "KdfHashError") ∧
    (∀ (ra_ : Nat) (ra rb : Point), rb.is_on_curve = true → ra_ ≤ N_MINUS_ONE →
        exch_step_2a m ida idb key ra_ ra rb 0 = .err "KdfHashError") :=
  ⟨fun ra cands => Proofs.SM9Logic.exch_1b_klen_zero m ida idb key ra cands,
   fun ra_ ra rb h1 h2 => Proofs.SM9Logic.exch_2a_klen_zero m ida idb key ra_ ra rb h1 h2⟩

/-! ### no endless loop -/

/-- `exch_step_2a` is a single pass: the model has no recursion, the function is this closed expression; in
particular an all-zero key is the error `KdfHashError`, not another iteration.
NOTE the two panic branches: rA > N − 1 (`assert!` in `Fp12::pow`; rA comes from the caller's own step 1a, which
delivers rA ≤ N − 2) and klen > 32·(2^32 − 1) (the KDF output is shorter than klen and `is_zero` indexes past it). -/
theorem exch_2a_single_pass (m : Sm9EncMasterKey) (ida idb : List UInt8) (key : Sm9EncKey) (ra_ : Nat) (ra rb : Point)
    (klen : Nat) :
    exch_step_2a m ida idb key ra_ ra rb klen =
      if rb.is_on_curve = false then .err "InvalidPoint"
      else if N_MINUS_ONE < ra_ then .panic
      else
        let sk := kdf (exch_kdf_input ida idb ra rb ((sm9_u256_pairing TWIST_POINT_MONT_P2 m.ppube).pow_loop ra_)
          (sm9_u256_pairing key.de rb) ((sm9_u256_pairing key.de rb).pow_loop ra_)) klen
        if sk.length < klen then .panic
        else if all_zero (sk.take klen) = false then .ok sk else .err "KdfHashError" :=
  Proofs.SM9Logic.exch_2a_eq m ida idb key ra_ ra rb klen

/-- step 2a does not panic for rA ≤ N − 1 and klen ≤ 32·(2^32 − 1) -/
theorem exch_2a_no_panic (m : Sm9EncMasterKey) (ida idb : List UInt8) (key : Sm9EncKey) (ra_ : Nat) (ra rb : Point)
    (klen : Nat) (hra : ra_ ≤ N_MINUS_ONE) (hk : klen ≤ 32 * (2 ^ 32 - 1)) :
    exch_step_2a m ida idb key ra_ ra rb klen ≠ .panic :=
  Proofs.SM9Logic.exch_2a_no_panic m ida idb key ra_ ra rb klen hra hk

example : (5 : Nat) ≤ N_MINUS_ONE ∧ (16 : Nat) ≤ 32 * (2 ^ 32 - 1) := by decide

/-- … and does panic for rA > N − 1 once RB is on the curve -/
theorem exch_2a_large_ra_panics (m : Sm9EncMasterKey) (ida idb : List UInt8) (key : Sm9EncKey) (ra_ : Nat)
    (ra rb : Point) (klen : Nat) (hon : rb.is_on_curve = true) (hra : N_MINUS_ONE < ra_) :
    exch_step_2a m ida idb key ra_ ra rb klen = .panic := by
  rw [Proofs.SM9Logic.exch_2a_eq, if_neg (by rw [hon]; decide), if_pos hra]

example : POINT_MONT_P1.is_on_curve = true ∧ N_MINUS_ONE < Gen.SM9.N := by decide +kernel

/-- the retry loop of `exch_step_1b` terminates within |cands| + 1 iterations: its result is the same for every
amount of fuel above |cands| (so the fuel-exhausted exit of the model is never taken from `exch_step_1b`, which
supplies |cands| + 1), because every iteration consumes at least one candidate … -/
theorem exch_1b_loop_bounded (m : Sm9EncMasterKey) (ida idb : List UInt8) (key : Sm9EncKey) (ra q : Point) (klen : Nat)
    (cands : List (List UInt8)) (used : List Nat) (fuel : Nat) (hf : cands.length + 1 ≤ fuel) :
    exch1bLoop m ida idb key ra q klen fuel cands used =
      exch1bLoop m ida idb key ra q klen (cands.length + 1) cands used :=
  Proofs.SM9Logic.exch1bLoop_fuel m ida idb key ra q klen fuel (cands.length + 1) cands used (by omega) (by omega)

/-- … and on success the number of iterations (= scalars logged) plus the candidates left over is at most |cands| -/
theorem exch_1b_iterations (m : Sm9EncMasterKey) (ida idb : List UInt8) (key : Sm9EncKey) (ra : Point) (klen : Nat)
    (cands : List (List UInt8)) (rbp : Point) (sk : List UInt8) (used : List Nat) (rest : List (List UInt8))
    (hs : exch_step_1b m ida idb key ra klen cands = .ok ⟨(rbp, sk), used, rest⟩) :
    1 ≤ used.length ∧ used.length + rest.length ≤ cands.length := by
  obtain ⟨_, _, _, _, _, ⟨_, rb, _, _, skp, _, _, h3, _⟩, hc⟩ :=
    Proofs.SM9Logic.exch_1b_shape m ida idb key ra klen cands rbp sk used rest hs
  refine ⟨?_, hc⟩
  rw [h3]; simp

/-- step 1a delivers rA ∈ [1, N − 2] and RA = [rA]Q_B: the `assert!` of `Fp12::pow` in step 2a holds for it -/
theorem exch_1a_shape (m : Sm9EncMasterKey) (idb : List UInt8) (cands : List (List UInt8)) (rap : Point) (ra_ : Nat)
    (used : List Nat) (rest : List (List UInt8))
    (hs : exch_step_1a m idb cands = .ok ⟨(rap, ra_), used, rest⟩) :
    1 ≤ ra_ ∧ ra_ < N_MINUS_ONE ∧ used = [ra_] ∧ rest.length < cands.length ∧
    ∃ h q0, sm9_u256_hash1 idb HID_EXCH = .ok h ∧ POINT_MONT_P1.point_mul h = .ok q0 ∧
      (q0.point_add m.ppube).point_mul ra_ = .ok rap :=
  Proofs.SM9Logic.exch_1a_shape m idb cands rap ra_ used rest hs

/-- the two statements together, as in the property list: `exch_step_2a` is this loop-free expression (one pass: an
all-zero key ends in `KdfHashError`), and `exch_step_1b`'s loop gives the same result for every fuel above |cands|, i.e.
it stops within |cands| + 1 iterations -/
theorem exch_no_endless_loop (m : Sm9EncMasterKey) (ida idb : List UInt8) (key : Sm9EncKey) (klen : Nat) :
    (∀ (ra_ : Nat) (ra rb : Point),
        exch_step_2a m ida idb key ra_ ra rb klen =
          if rb.is_on_curve = false then .err "InvalidPoint"
          else if N_MINUS_ONE < ra_ then .panic
          else
            let sk := kdf (exch_kdf_input ida idb ra rb ((sm9_u256_pairing TWIST_POINT_MONT_P2 m.ppube).pow_loop ra_)
              (sm9_u256_pairing key.de rb) ((sm9_u256_pairing key.de rb).pow_loop ra_)) klen
            if sk.length < klen then .panic
            else if all_zero (sk.take klen) = false then .ok sk else .err "KdfHashError") ∧
    (∀ (ra q : Point) (cands : List (List UInt8)) (used : List Nat) (fuel : Nat), cands.length + 1 ≤ fuel →
        exch1bLoop m ida idb key ra q klen fuel cands used =
          exch1bLoop m ida idb key ra q klen (cands.length + 1) cands used) :=
  ⟨fun ra_ ra rb => exch_2a_single_pass m ida idb key ra_ ra rb klen,
   fun ra q cands used fuel hf => exch_1b_loop_bounded m ida idb key ra q klen cands used fuel hf⟩

/-- with an empty candidate list the loop stops at once -/
example (m : Sm9EncMasterKey) (key : Sm9EncKey) (ra q : Point) :
    exch1bLoop m [] [] key ra q 16 5 [] [] = .err "rng-exhausted" := rfl

/-- step 1b does not panic for klen ≤ 32·(2^32 − 1) -/
theorem exch_1b_no_panic (m : Sm9EncMasterKey) (ida idb : List UInt8) (key : Sm9EncKey) (ra : Point) (klen : Nat)
    (cands : List (List UInt8))
    (hpm : ∀ (P : Point) (k : Nat), k < 2 ^ 256 → ∃ R, P.point_mul k = .ok R) (hk : klen ≤ 32 * (2 ^ 32 - 1)) :
    exch_step_1b m ida idb key ra klen cands ≠ .panic :=
  Proofs.SM9Logic.exch_1b_no_panic m ida idb key ra klen cands
    (fun P k hk h => by obtain ⟨R, hR⟩ := hpm P k hk; rw [hR] at h; cases h) hk

end GmVerif.Thm.C17
