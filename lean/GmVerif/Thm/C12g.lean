/-
Property C12, seventh part (C12g): `ChainIndependent` HOLDS — the signed-digit Miller chain of the model's digit string and the
binary Miller chain of the standard give the same value up to a factor killed by the final exponentiation.  With C12e
(`chainGeneric`) this discharges the last hypothesis of the SM9 refinement theorems: `millerRefines`, `pairingRefines`.

* Stage 4a — the points: the evaluation point P ∈ E(Fp) is on E, of base type, and x_P is a non-zero element of Fp because 5 is
  not a square modulo p (`five_not_square`, `pgood_of_onCurve`); the untwisted multiples ψ([k]Q'), N ∤ k, are on E, of twist
  type and x_P ≠ x(ψ[k]Q') (`multiple_data`); tangents and chords between multiples are generic (`multiple_tangent`,
  `multiple_chord`).
* Stage 4b — the cocycle relations of C12f on multiples (`carry_double_multiples`, `carry_minus_multiples`).
* Stage 4c — the carry automaton (`trans`), the lockstep invariant `LInv`, one step (`lockstep_step`), the fold (`lockstep_fold`)
  and the kernel-evaluated run over the two actual 65-digit strings (`run_value`: ends at m = 6t + 2 with carry 0).
* Stage 4d — `millerSD_approx`, `chainIndependent`, `millerRefines`, `pairingRefines`, `pairing_eq_millerSD`.
Only property theorems; definitions and lemmas are in `Proofs.SM9ChainIndepPts`, `Proofs.SM9ChainIndep`.
-/
import GmVerif.Proofs.SM9ChainIndep
import GmVerif.Thm.C12e
import GmVerif.Thm.C12f
namespace GmVerif.Thm.C12g
open GmVerif
open GmVerif.Proofs.SM9SpecField (A Killed)
open GmVerif.Proofs.SM9SpecLines (SFp12)
open GmVerif.Proofs.SM9MillerSD (TangentOK ChordOK millerSD sdStep)
open GmVerif.Spec.SM9 (p N t ateLoop finalExp lineAdd Pt2 Pt12 neg12 miller millerStep bitsMSB onTwist mul2 untwist P1 P2)
open GmVerif.Proofs.SM9Fp12 (ev Canon)
open GmVerif.Proofs.SM9Tower (K)
open GmVerif.Proofs.SM9TowerDense (ι)
open GmVerif.Thm.C12f (Aff OnE OnTw OnBase Approx)
open GmVerif.Thm.C12c (ChainIndependent)
open GmVerif.Thm.C12b (MillerRefines PairingRefines)
open GmVerif.Thm.C12e (W2)

/-! ## vocabulary (definitions of `Proofs/*`, unchanged) -/

/-- ψ on Mathlib's point group of the twist, and ψ([k]Q') -/
noncomputable abbrev ψ : W2.Point → Pt12 := Proofs.SM9ChainGenericPf.ψ
noncomputable abbrev pt : W2.Point → ℤ → Pt12 := Proofs.SM9ChainIndep.pt
abbrev PGood := Proofs.SM9ChainIndep.PGood
abbrev cI := Proofs.SM9ChainIndep.cI
abbrev dig := Proofs.SM9ChainIndep.dig
abbrev trans := Proofs.SM9ChainIndep.trans
abbrev run := Proofs.SM9ChainIndep.run
abbrev LInv := Proofs.SM9ChainIndep.LInv

example (R : W2.Point) : ψ R = untwist (Proofs.SM9G2.ofPoint2 R) := rfl
example (Q' : W2.Point) (k : ℤ) : pt Q' k = ψ (k • Q') := rfl
example (P : SFp12 × SFp12) : PGood P ↔ OnE (ev P.1) (ev P.2) ∧ OnBase (ev P.1) (ev P.2) ∧ ∃ a : K, a ≠ 0 ∧ ev P.1 = ι a :=
  ⟨fun h => ⟨h.onE, h.base, h.x⟩, fun h => ⟨h.1, h.2.1, h.2.2⟩⟩
example : cI false = 0 ∧ cI true = 1 := ⟨rfl, rfl⟩
example : dig '0' = 0 ∧ dig '1' = 1 ∧ dig '2' = -1 := by decide
example (c b : Bool) (ch : Char) : trans c b ch =
    if 2 * cI c + dig ch - cI b = 0 then some false else if 2 * cI c + dig ch - cI b = 1 then some true else none := rfl
example (m : ℤ) (c : Bool) : run [] [] m c = some (m, c) := rfl
example (b : Bool) (bs : List Bool) (ch : Char) (cs : List Char) (m : ℤ) (c : Bool) :
    run (b :: bs) (ch :: cs) m c = match trans c b ch with
      | some c' => run bs cs (2 * m + cI b) c'
      | none => none := rfl
example (Q' : W2.Point) (P : SFp12 × SFp12) (sb ss : SFp12 × Pt12) (m : ℤ) (c : Bool) :
    LInv Q' P sb ss m c ↔ sb.2 = pt Q' m ∧ ss.2 = pt Q' (m + cI c)
      ∧ Approx (ev ss.1) (if c = true then ev sb.1 * ev (lineAdd (pt Q' m) (pt Q' 1) P).1 else ev sb.1)
      ∧ 1 ≤ m ∧ (c = true → 2 ≤ m) :=
  ⟨fun h => ⟨h.ptb, h.pts, h.val, h.lo, h.lo2⟩, fun h => ⟨h.1, h.2.1, h.2.2.1, h.2.2.2.1, h.2.2.2.2⟩⟩

/-! ## Stage 4a — the points of the run -/

/-- 5 is not a square modulo p (Euler's criterion, 5^((p−1)/2) = −1 evaluated by the kernel): no point of E(Fp) has x = 0 -/
theorem five_not_square (b : K) : b ^ 2 ≠ 5 := Proofs.SM9ChainIndep.five_not_square b
example : (5 : K) ^ ((p - 1) / 2) = -1 := Proofs.SM9ChainIndep.five_pow

/-- a finite point of E(Fp), embedded in E(Fp12): on E, fixed by the p⁶-power map, x-coordinate a non-zero element of Fp -/
theorem pgood_of_onCurve (P : Spec.EC.Pt) (P' : SFp12 × SFp12) (hc : Spec.EC.onCurve Spec.SM9.curve P = true)
    (he : Spec.SM9.embed1 P = some P') : PGood P' := Proofs.SM9ChainIndep.pgood_of_onCurve hc he
example : ∃ P', Spec.SM9.embed1 P1 = some P' ∧ PGood P' :=
  ⟨_, rfl, pgood_of_onCurve P1 _ Proofs.SM9Algebra.sm9_P1_onCurve rfl⟩

/-- the x-coordinate of an untwisted point is not a non-zero element of Fp -/
theorem vertical_ne (a : K) (ha : a ≠ 0) (x : Proofs.SM9TwistFrob.L) : ι a ≠ ev (Proofs.SM9TwistFrobUntwist.ux x) :=
  Proofs.SM9ChainIndep.vertical_ne ha x
example (x : Proofs.SM9TwistFrob.L) : ι (1 : K) ≠ ev (Proofs.SM9TwistFrobUntwist.ux x) := vertical_ne 1 one_ne_zero x

/-- the coordinates of ψ([k]Q'), Q' of order N, N ∤ k: on E, of twist type, x different from x_P -/
theorem multiple_data (Q' : W2.Point) (hord : addOrderOf Q' = N) (P : SFp12 × SFp12) (hP : PGood P) (k : ℤ)
    (hk : ¬ (N : ℤ) ∣ k) : ∃ x y, Aff (pt Q' k) x y ∧ OnE x y ∧ OnTw x y ∧ ev P.1 ≠ x :=
  Proofs.SM9ChainIndep.pt_data hord hP hk

/-- tangent at ψ([a]Q'), N ∤ a, 2a: generic, lands on ψ([2a]Q') -/
theorem multiple_tangent (Q' : W2.Point) (hord : addOrderOf Q' = N) (a : ℤ) (ha : ¬ (N : ℤ) ∣ a) (h2a : ¬ (N : ℤ) ∣ a + a)
    (P : SFp12 × SFp12) : TangentOK (pt Q' a) ∧ (lineAdd (pt Q' a) (pt Q' a) P).2 = pt Q' (2 * a) :=
  Proofs.SM9ChainIndep.pt_tangent hord ha h2a P

/-- chord through ψ([a]Q'), ψ([b]Q'), N ∤ a, b, a − b, a + b: generic, lands on ψ([a+b]Q') -/
theorem multiple_chord (Q' : W2.Point) (hord : addOrderOf Q' = N) (a b : ℤ) (ha : ¬ (N : ℤ) ∣ a) (hb : ¬ (N : ℤ) ∣ b)
    (hab : ¬ (N : ℤ) ∣ a - b) (hab' : ¬ (N : ℤ) ∣ a + b) (P : SFp12 × SFp12) :
    ChordOK (pt Q' a) (pt Q' b) ∧ (lineAdd (pt Q' a) (pt Q' b) P).2 = pt Q' (a + b) :=
  Proofs.SM9ChainIndep.pt_chord hord ha hb hab hab' P

/-- non-vacuity of the hypothesis `addOrderOf Q' = N`: every finite point of G2 is ψ-represented by such a Q' -/
theorem exists_order_N (Q : Pt2) (hQ : onTwist Q = true) (hN : mul2 N Q = none) (hQ0 : Q ≠ none) :
    ∃ Q' : W2.Point, Q = Proofs.SM9G2.ofPoint2 Q' ∧ addOrderOf Q' = N := by
  obtain ⟨R, rfl⟩ := Proofs.SM9G2.exists_ofPoint2 hQ
  have hR0 : R ≠ 0 := fun h => hQ0 (by rw [h]; rfl)
  rw [Proofs.SM9G2.mul2_ofPoint, Proofs.SM9G2.ofPoint2_eq_none_iff] at hN
  exact ⟨R, rfl, Proofs.SM9G2Cyclic.addOrderOf_eq_prime Proofs.SM9Algebra.N_prime hR0 hN⟩
example : ∃ Q' : W2.Point, P2 = Proofs.SM9G2.ofPoint2 Q' ∧ addOrderOf Q' = N :=
  exists_order_N P2 Proofs.SM9Algebra.sm9_P2_onTwist Proofs.SM9Algebra.sm9_g2_order Proofs.SM9Algebra.P2_ne_none
example (P : SFp12 × SFp12) : ∃ Q' : W2.Point, TangentOK (pt Q' 2) ∧ ChordOK (pt Q' 2) (pt Q' 1) := by
  obtain ⟨Q', -, hord⟩ := exists_order_N P2 Proofs.SM9Algebra.sm9_P2_onTwist Proofs.SM9Algebra.sm9_g2_order
    Proofs.SM9Algebra.P2_ne_none
  exact ⟨Q', (multiple_tangent Q' hord 2 (by decide) (by decide) P).1,
    (multiple_chord Q' hord 2 1 (by decide) (by decide) (by decide) (by decide) P).1⟩

/-! ## Stage 4b — the cocycle relations on multiples -/

/-- g_{[m]Q,Q}²·g_{[m+1]Q,[m+1]Q} ≈ g_{[m]Q,[m]Q}·g_{[2m]Q,Q}·g_{[2m+1]Q,Q}  at P -/
theorem carry_double_multiples (Q' : W2.Point) (hord : addOrderOf Q' = N) (P : SFp12 × SFp12) (hP : PGood P) (m : ℤ)
    (hm : 2 ≤ m) (hN : 2 * m + 2 < N) :
    Approx (ev (lineAdd (pt Q' m) (pt Q' 1) P).1 ^ 2 * ev (lineAdd (pt Q' (m + 1)) (pt Q' (m + 1)) P).1)
      (ev (lineAdd (pt Q' m) (pt Q' m) P).1 * ev (lineAdd (pt Q' (2 * m)) (pt Q' 1) P).1
        * ev (lineAdd (pt Q' (2 * m + 1)) (pt Q' 1) P).1) := Proofs.SM9ChainIndep.cd hord hP hm hN

/-- g_{[u]Q,Q}·g_{[u+1]Q,−Q} ≈ 1  at P -/
theorem carry_minus_multiples (Q' : W2.Point) (hord : addOrderOf Q' = N) (P : SFp12 × SFp12) (hP : PGood P) (u : ℤ)
    (hu : 2 ≤ u) (hN : u + 2 < N) :
    Approx (ev (lineAdd (pt Q' u) (pt Q' 1) P).1 * ev (lineAdd (pt Q' (u + 1)) (pt Q' (-1)) P).1) 1 :=
  Proofs.SM9ChainIndep.cm hord hP hu hN
example : ∃ (Q' : W2.Point) (P : SFp12 × SFp12),
    Approx (ev (lineAdd (pt Q' 2) (pt Q' 1) P).1 * ev (lineAdd (pt Q' (2 + 1)) (pt Q' (-1)) P).1) 1 := by
  obtain ⟨Q', -, hord⟩ := exists_order_N P2 Proofs.SM9Algebra.sm9_P2_onTwist Proofs.SM9Algebra.sm9_g2_order
    Proofs.SM9Algebra.P2_ne_none
  exact ⟨Q', _, carry_minus_multiples Q' hord _ (pgood_of_onCurve P1 _ Proofs.SM9Algebra.sm9_P1_onCurve rfl) 2 (by decide)
    (by decide)⟩

/-! ## Stage 4c — the lockstep run -/

/-- the transition table of the carry: exactly six admissible combinations -/
theorem trans_table :
    trans false false '0' = some false ∧ trans false true '1' = some false ∧ trans false false '1' = some true
      ∧ trans true true '0' = some true ∧ trans true false '2' = some true ∧ trans true true '2' = some false
      ∧ trans false true '0' = none ∧ trans false false '2' = none ∧ trans false true '2' = none
      ∧ trans true false '0' = none ∧ trans true false '1' = none ∧ trans true true '1' = none := by decide

/-- THE RUN over the bits of 6t + 2 without the leading one and the 65 digits of the model (kernel evaluation): every
transition is admissible, the run ends with binary prefix value 6t + 2 and carry 0; all multiples stay far below N -/
theorem run_value :
    run ((bitsMSB ateLoop).drop 1) Impl.SM9.abits.toList 1 false = some ((ateLoop : ℤ), false)
      ∧ ((1 : ℤ) + 2) * 2 ^ ((bitsMSB ateLoop).drop 1).length < N :=
  ⟨Proofs.SM9ChainIndep.run_value, Proofs.SM9ChainIndep.run_bound⟩

/-- ONE STEP: the invariant is preserved by one bit / one digit with an admissible transition -/
theorem lockstep_step (Q' : W2.Point) (hord : addOrderOf Q' = N) (P : SFp12 × SFp12) (hP : PGood P)
    (sb ss : SFp12 × Pt12) (m : ℤ) (c : Bool) (hI : LInv Q' P sb ss m c) (hN : 2 * m + 4 < N)
    (b : Bool) (ch : Char) (c' : Bool) (ht : trans c b ch = some c') :
    LInv Q' P (millerStep (pt Q' 1) P sb b) (sdStep (pt Q' 1) P ss ch) (2 * m + cI b) c' :=
  Proofs.SM9ChainIndep.step_inv hord hP hI hN b ch c' ht _ rfl

/-- THE FOLD: the invariant after the two folds, for any two digit lists whose run succeeds -/
theorem lockstep_fold (Q' : W2.Point) (hord : addOrderOf Q' = N) (P : SFp12 × SFp12) (hP : PGood P)
    (bs : List Bool) (cs : List Char) (sb ss : SFp12 × Pt12) (m : ℤ) (c : Bool) (hI : LInv Q' P sb ss m c)
    (hN : (m + 2) * 2 ^ bs.length < N) (m' : ℤ) (c' : Bool) (hr : run bs cs m c = some (m', c')) :
    LInv Q' P (bs.foldl (millerStep (pt Q' 1) P) sb) (cs.foldl (sdStep (pt Q' 1) P) ss) m' c' :=
  Proofs.SM9ChainIndep.fold_inv hord hP bs cs hI hN hr

/-- the invariant holds at the start (1, ψQ'), (1, ψQ') with m = 1, carry 0 -/
theorem lockstep_init (Q' : W2.Point) (P : SFp12 × SFp12) :
    LInv Q' P (Spec.SM9.Fp12.one, pt Q' 1) (Spec.SM9.Fp12.one, pt Q' 1) 1 false := Proofs.SM9ChainIndep.linv_init
/-- non-vacuity: the hypotheses of `lockstep_fold` hold for the actual lists from the start state -/
example (Q' : W2.Point) (hord : addOrderOf Q' = N) (P : SFp12 × SFp12) (hP : PGood P) :
    LInv Q' P (((bitsMSB ateLoop).drop 1).foldl (millerStep (pt Q' 1) P) (Spec.SM9.Fp12.one, pt Q' 1))
      (Impl.SM9.abits.toList.foldl (sdStep (pt Q' 1) P) (Spec.SM9.Fp12.one, pt Q' 1)) (ateLoop : ℤ) false :=
  lockstep_fold Q' hord P hP _ _ _ _ 1 false (lockstep_init Q' P) run_value.2 _ _ run_value.1

/-! ## Stage 4d — the result -/

/-- the two Miller values agree up to a killed factor (in the field A = Fp[w]/(w¹² + 2)) -/
theorem millerSD_approx (Q' : W2.Point) (hord : addOrderOf Q' = N) (P : SFp12 × SFp12) (hP : PGood P) :
    Approx (ev (millerSD P (ψ Q'))) (ev (miller P (ψ Q'))) := Proofs.SM9ChainIndep.millerSD_approx hord hP

/-- THE PROPERTY: `ChainIndependent` (C12c) HOLDS -/
theorem chainIndependent : ChainIndependent := Proofs.SM9ChainIndep.chainIndependent

/-- non-vacuity: the hypotheses of `ChainIndependent.indep` hold for the generators P1, P2 -/
example : ∃ P' Q', Spec.SM9.embed1 P1 = some P' ∧ untwist P2 = some Q' ∧
    ∃ c, Spec.SM9.Fp12.pow c finalExp = Spec.SM9.Fp12.one ∧
      millerSD P' (some Q') = Spec.SM9.Fp12.mul c (miller P' (some Q')) :=
  ⟨_, _, rfl, rfl, chainIndependent.indep P1 P2 _ _ Proofs.SM9Algebra.sm9_P1_onCurve rfl Proofs.SM9Algebra.sm9_P2_onTwist
    Proofs.SM9Algebra.sm9_g2_order rfl⟩

/-- hence `MillerRefines` and `PairingRefines` hold WITHOUT hypotheses: the model's Miller value denotes the specification's
Miller value up to a killed factor, and the model's pairing is the pairing of GM/T 0044 -/
theorem millerRefines : MillerRefines := C12e.millerRefines_of_chainIndependent chainIndependent
theorem pairingRefines : PairingRefines := C12e.pairingRefines_of_chainIndependent chainIndependent

example (Q : Impl.SM9.TwistPoint) (P : Impl.SM9.Point) (hQ : C12b.InG2 Q) (hP : C12b.Valid P) :
    C12b.dense (Impl.SM9.sm9_u256_pairing Q P) = Spec.SM9.pairing (C12b.toSpec P) (C12b.toSpec2 Q) :=
  pairingRefines.value Q P hQ hP

/-- the pairing of the standard, computed with the signed-digit chain -/
theorem pairing_eq_millerSD (P : Spec.EC.Pt) (Q : Pt2) (P' Q' : SFp12 × SFp12)
    (hc : Spec.EC.onCurve Spec.SM9.curve P = true) (hPe : Spec.SM9.embed1 P = some P')
    (hQ : onTwist Q = true) (hN : mul2 N Q = none) (hQ' : untwist Q = some Q') :
    Spec.SM9.pairing P Q = Spec.SM9.Fp12.pow (millerSD P' (some Q')) finalExp := by
  obtain ⟨c, hc1, e⟩ := chainIndependent.indep P Q P' Q' hc hPe hQ hN hQ'
  simp only [Spec.SM9.pairing, hPe, hQ']
  apply Proofs.SM9Fp12.ev_injective (Proofs.SM9Fp12.canon_pow _ _) (Proofs.SM9Fp12.canon_pow _ _)
  have h1 := congrArg ev hc1
  rw [Proofs.SM9Fp12.ev_pow, Proofs.SM9Fp12.ev_one] at h1
  rw [Proofs.SM9Fp12.ev_pow, Proofs.SM9Fp12.ev_pow, e, Proofs.SM9Fp12.ev_mul, mul_pow, h1, one_mul]
example : ∃ P' Q', Spec.SM9.embed1 P1 = some P' ∧ untwist P2 = some Q' ∧
    Spec.SM9.pairing P1 P2 = Spec.SM9.Fp12.pow (millerSD P' (some Q')) finalExp :=
  ⟨_, _, rfl, rfl, pairing_eq_millerSD P1 P2 _ _ Proofs.SM9Algebra.sm9_P1_onCurve rfl Proofs.SM9Algebra.sm9_P2_onTwist
    Proofs.SM9Algebra.sm9_g2_order rfl⟩

end GmVerif.Thm.C12g
