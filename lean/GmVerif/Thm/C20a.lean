/-
C20a: no input reaches a panic branch in the SM2 entry points of the model of gm-sm2 (`Impl.SM2.Key`), the retry loop
of `sign_raw` terminates as soon as one candidate is acceptable, and `random_u256` returns exactly the first candidate
in [1, n-1].  (verify / decrypt / from_byte / decrypt_asn1 totality: `Thm.C04`, `Thm.C06`, `Thm.C19a`.)
Only the property theorems; all work is in `GmVerif.Proofs.SM2Logic`.  Point operations stay opaque.
-/
import GmVerif.Proofs.SM2Logic

namespace GmVerif.Thm.C20a
open GmVerif GmVerif.Impl.SM2

theorem sk_new_total (b : List UInt8) : Impl.SM2.sk_new b ≠ .panic :=
  Proofs.SM2Logic.sk_new_total b

example : sk_new [] ≠ .panic := sk_new_total _

/-- a private key is accepted only if it is 32 bytes and in [1, n-2] -/
theorem sk_new_ok_iff (b : List UInt8) (d : Nat) (p : Point) :
    Impl.SM2.sk_new b = .ok (d, p) → b.length = 32 ∧ 1 ≤ d ∧ d ≤ Gen.SM2.N - 2 ∧ d = beNat b :=
  Proofs.SM2Logic.sk_new_ok b d p

/-- non-vacuity: d = 5 is accepted; 0, n-1 and a 31-byte string are rejected -/
example : (sk_new (natBE 32 5)).isOk = true := by decide +kernel
example : (sk_new (natBE 32 (Gen.SM2.N - 2))).isOk = true := by decide +kernel
example : sk_new (natBE 32 0) = .err "InvalidPrivate" := by decide +kernel
example : sk_new (natBE 32 (Gen.SM2.N - 1)) = .err "InvalidPrivate" := by decide +kernel
example : sk_new (natBE 31 5) = .err "InvalidPrivate" := by decide +kernel

theorem pk_new_total (b : List UInt8) : Impl.SM2.pk_new b ≠ .panic :=
  Proofs.SM2Logic.pk_new_total b

example : pk_new [4] ≠ .panic := pk_new_total _

theorem compute_za_total (id : List UInt8) (pk : Point) : Impl.SM2.compute_za id pk ≠ .panic :=
  Proofs.SM2Logic.compute_za_total id pk

example : compute_za (List.replicate 8192 0) ⟨1, 2, 3⟩ ≠ .panic := compute_za_total _ _

theorem sign_raw_total (digest : List UInt8) (d : Nat) (cands : List (List UInt8)) :
    Impl.SM2.sign_raw digest d cands ≠ .panic :=
  Proofs.SM2Logic.sign_raw_total digest d cands

example : sign_raw [] 0 [] ≠ .panic := sign_raw_total _ _ _

/-- `xor_bytes`' `assert_eq!` cannot fire: msg ≠ [] ⇒ |kdf| = |msg| -/
theorem encrypt_total (pk : Point) (msg : List UInt8) (c : Bool) (model : Model) (cands : List (List UInt8)) :
    Impl.SM2.encrypt pk msg c model cands ≠ .panic :=
  Proofs.SM2Logic.encrypt_total pk msg c model cands

example : encrypt ⟨1, 2, 3⟩ [] true .c1c2c3 [] ≠ .panic := encrypt_total _ _ _ _ _
/-- the empty message is an error (before the fix: a panic in `xor_bytes`, cf. `Thm.C05a.kdf_zero`) -/
example : (encrypt ⟨1, 2, 3⟩ [] true .c1c2c3 [[1]]).map (·.val) = .err "ZeroData" := by decide +kernel

/-- termination of the retry loop: if some candidate in the list is accepted — in range [1, n-1] and the three retry
    conditions of `signLoop` (r = 0, r + k = n, s = 0) are false for it — then `sign_raw` returns a signature; in
    particular the result is not `rng-exhausted`. -/
theorem sign_terminates_if (digest : List UInt8) (d : Nat) (cands : List (List UInt8)) (hd : digest.length = 32)
    (c : List UInt8) (hc : c ∈ cands) (hrange : 1 ≤ beNat c ∧ beNat c < Gen.SM2.N)
    (hacc :
      let e := reduceN (beNat digest)
      let s1 := fn_pow ((1 + d) % 2 ^ 256) Gen.SM2.N_MINUS_TWO
      let k := beNat c
      let r := fn_add e (reduceN (fp_from_mont (g_mul k).to_affine_point.x))
      ¬ (r = 0 ∨ (r + k) % 2 ^ 256 = Gen.SM2.N) ∧ fn_mul s1 (fn_sub k (fn_mul r d)) ≠ 0) :
    (∃ r, Impl.SM2.sign_raw digest d cands = .ok r) ∧ Impl.SM2.sign_raw digest d cands ≠ .err "rng-exhausted" :=
  Proofs.SM2Logic.sign_terminates_if digest d cands hd c hc hrange hacc

/-- non-vacuity: the hypotheses hold for digest 11…11, d = 5 and the candidate 07…07 placed after two out-of-range ones -/
example : (∃ r, sign_raw (List.replicate 32 0x11) 5 [List.replicate 32 0, List.replicate 32 0xFF, List.replicate 32 0x07] = .ok r) ∧
    sign_raw (List.replicate 32 0x11) 5 [List.replicate 32 0, List.replicate 32 0xFF, List.replicate 32 0x07] ≠ .err "rng-exhausted" :=
  sign_terminates_if _ 5 _ (by decide) (List.replicate 32 0x07) (by decide) (by decide +kernel) (by decide +kernel)
/-- and the conclusion fails without them: only out-of-range candidates -/
example : (sign_raw (List.replicate 32 0x11) 5 [List.replicate 32 0, List.replicate 32 0xFF]).map (·.val) =
    .err "rng-exhausted" := by decide +kernel

theorem random_u256_spec (cands : List (List UInt8)) :
    Impl.SM2.random_u256 cands = (match cands.dropWhile (fun c => ¬ (beNat c < Gen.SM2.N ∧ beNat c ≠ 0)) with
      | [] => none | c :: rest => some (beNat c, rest)) :=
  Proofs.SM2Logic.random_u256_spec cands

example : random_u256 [] = none := by decide +kernel
example : random_u256 [List.replicate 32 0xFF] = none := by decide +kernel
example : random_u256 [List.replicate 32 0xFF, List.replicate 32 0, natBE 32 Gen.SM2.N, natBE 32 (Gen.SM2.N - 1), [9]] =
    some (Gen.SM2.N - 1, [[9]]) := by decide +kernel

/-- a candidate outside [1, n-1] is never returned; the returned value IS one of the candidates -/
theorem random_u256_in_range (cands : List (List UInt8)) (k : Nat) (rest : List (List UInt8))
    (h : Impl.SM2.random_u256 cands = some (k, rest)) : 1 ≤ k ∧ k < Gen.SM2.N ∧ ∃ c ∈ cands, beNat c = k :=
  Proofs.SM2Logic.random_u256_in_range cands k rest h

example : random_u256 [List.replicate 32 0xFF, natBE 32 1] = some (1, []) := by decide +kernel
example : 1 ≤ 1 ∧ 1 < Gen.SM2.N ∧ ∃ c ∈ [List.replicate 32 0xFF, natBE 32 1], beNat c = 1 :=
  random_u256_in_range _ 1 [] (by decide +kernel)

end GmVerif.Thm.C20a
