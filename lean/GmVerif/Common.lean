/-
Common definitions shared by Spec and Impl: outcome type of every modelled entry point,
32-bit rotation, big-endian (de)serialisation, hex.  Core Lean only (the driver links).
-/
namespace GmVerif

/-- Result of a modelled Rust entry point: `ok v` = `Ok(v)` / plain return, `err k` = `Err(k)`
(the kind is the crate's enum variant name), `panic` = the Rust code panics (slice/index out of
range, `unwrap` on `None`/`Err`, `assert!`, arithmetic overflow with overflow-checks on). -/
inductive Outcome (α : Type) where
  | ok : α → Outcome α
  | err : String → Outcome α
  | panic : Outcome α
deriving Repr, DecidableEq, Inhabited

namespace Outcome
def bind {α β} (x : Outcome α) (f : α → Outcome β) : Outcome β :=
  match x with
  | ok a => f a
  | err k => err k
  | panic => panic
def map {α β} (f : α → β) (x : Outcome α) : Outcome β := x.bind (fun a => ok (f a))
def isOk {α} : Outcome α → Bool
  | ok _ => true
  | _ => false
def isErr {α} : Outcome α → Bool
  | err _ => true
  | _ => false
instance : Monad Outcome where
  pure := ok
  bind := bind
end Outcome

/-- `u32::rotate_left(k)`: Rust reduces the amount modulo 32. -/
@[inline] def rotl32 (x : UInt32) (k : Nat) : UInt32 :=
  (x <<< (k % 32).toUInt32) ||| (x >>> ((32 - k % 32) % 32).toUInt32)

/-- big-endian bytes of a 32-bit word -/
def be32 (x : UInt32) : List UInt8 :=
  [(x >>> 24).toUInt8, (x >>> 16).toUInt8, (x >>> 8).toUInt8, x.toUInt8]

/-- big-endian bytes of a 64-bit word -/
def be64 (x : UInt64) : List UInt8 :=
  [(x >>> 56).toUInt8, (x >>> 48).toUInt8, (x >>> 40).toUInt8, (x >>> 32).toUInt8,
   (x >>> 24).toUInt8, (x >>> 16).toUInt8, (x >>> 8).toUInt8, x.toUInt8]

/-- `u32::from_be_bytes([a,b,c,d])` -/
@[inline] def u32be (a b c d : UInt8) : UInt32 :=
  (a.toUInt32 <<< 24) ||| (b.toUInt32 <<< 16) ||| (c.toUInt32 <<< 8) ||| d.toUInt32

/-- big-endian natural number of a byte string -/
def beNat (bs : List UInt8) : Nat := bs.foldl (fun acc b => acc * 256 + b.toNat) 0

/-- `n` as exactly `len` big-endian bytes (value taken mod 256^len) -/
def natBE (len : Nat) (n : Nat) : List UInt8 :=
  (List.range len).map (fun i => (n / 256 ^ (len - 1 - i) % 256).toUInt8)

/-! ### hex -/
def hexDigit (n : Nat) : Char :=
  if n < 10 then Char.ofNat (48 + n) else Char.ofNat (87 + n)

def hexOfBytes (bs : List UInt8) : String :=
  String.ofList (bs.foldr (fun b acc => hexDigit (b.toNat / 16) :: hexDigit (b.toNat % 16) :: acc) [])

def hexVal (c : Char) : Option Nat :=
  if '0' ≤ c ∧ c ≤ '9' then some (c.toNat - 48)
  else if 'a' ≤ c ∧ c ≤ 'f' then some (c.toNat - 87)
  else if 'A' ≤ c ∧ c ≤ 'F' then some (c.toNat - 55)
  else none

def bytesOfHexAux : List Char → List UInt8 → Option (List UInt8)
  | [], acc => some acc.reverse
  | [_], _ => none
  | a :: b :: rest, acc =>
    match hexVal a, hexVal b with
    | some x, some y => bytesOfHexAux rest ((x * 16 + y).toUInt8 :: acc)
    | _, _ => none

/-- "-" denotes the empty string in the line protocol -/
def bytesOfHex (s : String) : Option (List UInt8) :=
  if s = "-" then some [] else bytesOfHexAux s.toList []

def hexOrDash (bs : List UInt8) : String := if bs.isEmpty then "-" else hexOfBytes bs

end GmVerif
