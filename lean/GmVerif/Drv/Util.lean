/- helpers for the line-protocol driver -/
import GmVerif.Common
namespace GmVerif.Drv
open GmVerif

def showOut (o : Outcome String) : String :=
  match o with
  | .ok s => if s.isEmpty then "OK" else "OK " ++ s
  | .err k => "ERR " ++ k
  | .panic => "PANIC"

/-- oracle side: `some s` = the property demands exactly this success payload, `none` = it demands an error -/
def showSpec (o : Option String) : String :=
  match o with
  | some s => if s.isEmpty then "OK" else "OK " ++ s
  | none => "ERR"

def hexB (bs : List UInt8) : String := hexOrDash bs
def hex8 (w : UInt32) : String := hexOfBytes (be32 w)
def showWords (ws : List UInt32) : String :=
  if ws.isEmpty then "-" else String.intercalate "," (ws.map hex8)

def natOfHex (s : String) : Option Nat :=
  if s.isEmpty then none else
  s.toList.foldl (fun acc c => match acc, hexVal c with
    | some a, some v => some (a * 16 + v)
    | _, _ => none) (some 0)

def parseWords (s : String) : Option (List UInt32) :=
  if s = "-" then some [] else
    (s.splitOn ",").foldr (fun w acc => match natOfHex w, acc with
      | some n, some l => some (UInt32.ofNat n :: l)
      | _, _ => none) (some [])

end GmVerif.Drv
