/-
Oracle side of the SM9 driver ops (the ops of the Rust harness `harness_sm9_ops.rs`), computed with `Spec.SM9` only.
`OK <payload>`: the property fixes the result.  `ERR`: it demands an error.  `ANY`: the input is outside the property's
statement.  `NOPANIC`: any OK/ERR is acceptable.  Field values of the field/tower/point ops travel as raw Montgomery
limbs (value·2^256 mod p); they are decoded with ·R⁻¹ mod p when canonical (< p), otherwise the verdict is `ANY`.
Imports no Mathlib and nothing from `Impl`.
-/
import GmVerif.Drv.Util
import GmVerif.Spec.SM9
namespace GmVerif.Drv.SM9Spec
open GmVerif GmVerif.Drv GmVerif.Spec.SM9
open GmVerif.Spec

def hex32 (x : Nat) : String := hexOfBytes (natBE 32 x)
def nat32 (s : String) : Option Nat :=
  match bytesOfHex s with
  | some b => if b.length = 32 then some (beNat b) else none
  | none => none

/-- comma-separated 32-byte values -/
def natList (s : String) : Option (List Nat) := (s.splitOn ",").mapM nat32

/-! ### Montgomery transport -/
def R : Nat := 2 ^ 256
def Rinv : Nat := EC.invMod (R % p) p
def dec (x : Nat) : Nat := x * Rinv % p
def enc (x : Nat) : Nat := x % p * (R % p) % p
def canon (l : List Nat) : Bool := l.all (· < p)
def showRaw (l : List Nat) : String := String.intercalate "," (l.map fun x => hex32 (enc x))

/-- decoded components of a tower element with `n` components (2, 4 or 12) embedded in Fp12; `none` = non-canonical -/
def decTower (n : Nat) (l : List Nat) : Option Fp12 :=
  if l.length = n ∧ canon l then some (Fp12.ofTower (l.map dec)) else none

/-- project an Fp12 value back to a subfield with `n` tower components (the others must vanish) -/
def projTower (n : Nat) (a : Fp12) : Option (List Nat) :=
  let tw := Fp12.toTower a
  if (tw.drop n).all (· == 0) then some (tw.take n) else none

def showTower (n : Nat) (a : Fp12) : String :=
  match projTower n a with
  | some l => "OK " ++ showRaw l
  | none => "ANY"   -- cannot happen: the subfields are closed under the operations used

def fpU : Fp12 := Fp12.ofTower [0, 1]            -- u = w⁶
def fpV : Fp12 := Fp12.ofTower [0, 0, 1]         -- v = w³
def half : Fp12 := Fp12.ofNat ((p + 1) / 2)

/-- operations shared by Fp, Fp2, Fp4, Fp12 (second operand optional); `none` = not a common op,
`some none` = outside the statement (inverse of zero) -/
def commonOp (op : String) (a c : Fp12) : Option (Option Fp12) :=
  match op with
  | "add" => some (some (Fp12.add a c))
  | "sub" => some (some (Fp12.sub a c))
  | "mul" => some (some (Fp12.mul a c))
  | "sqr" => some (some (Fp12.mul a a))
  | "neg" => some (some (Fp12.neg a))
  | "dbl" => some (some (Fp12.add a a))
  | "tri" => some (some (Fp12.add a (Fp12.add a a)))
  | "div2" => some (some (Fp12.mul a half))
  | "inv" => some (if a = Fp12.zero then none else some (Fp12.inv a))
  | _ => none

/-- negate the tower components whose index satisfies `f` -/
def negComponents (a : Fp12) (f : Nat → Bool) : Fp12 :=
  Fp12.ofTower ((Fp12.toTower a).mapIdx fun i x => if f i then (p - x) % p else x)

def fp2Op (op : String) (a c : Fp12) : Option (Option Fp12) :=
  match op with
  | "div" => some (if c = Fp12.zero then none else some (Fp12.mul a (Fp12.inv c)))
  | "conjugate" => some (some (negComponents a fun i => i % 2 = 1))      -- x − y·u
  | "a_mul_u" => some (some (Fp12.mul a fpU))
  | "mul_u" => some (some (Fp12.mul (Fp12.mul a c) fpU))
  | "sqr_u" => some (some (Fp12.mul (Fp12.mul a a) fpU))
  | "mul_fp" => some (some (Fp12.mul a (Fp12.ofNat ((Fp12.toTower c).getD 0 0))))
  | _ => commonOp op a c

def fp4Op (op : String) (a c : Fp12) : Option (Option Fp12) :=
  match op with
  | "mul_v" => some (some (Fp12.mul (Fp12.mul a c) fpV))
  | "a_mul_v" => some (some (Fp12.mul a fpV))
  | "conjugate" => some (some (negComponents a fun i => i % 4 ≥ 2))      -- a − b·v
  | "sqr_v" => some (some (Fp12.mul (Fp12.mul a a) fpV))
  | "mul_fp" => some (some (Fp12.mul a (Fp12.ofNat ((Fp12.toTower c).getD 0 0))))
  | "mul_fp2" => some (some (Fp12.mul a (Fp12.ofTower ((Fp12.toTower c).take 2))))
  | _ => commonOp op a c

/-! ### points -/

def showPt : EC.Pt → String
  | none => "inf"
  | some (x, y) => hex32 x ++ "," ++ hex32 y

def showPt2 : Pt2 → String
  | none => "inf"
  | some (x, y) => hex32 x.1 ++ "," ++ hex32 x.2 ++ ";" ++ hex32 y.1 ++ "," ++ hex32 y.2

/-- raw Jacobian "x:y:z" of G1: `none` = malformed, `some none` = not a representation of a curve point -/
def parseG1 (s : String) : Option (Option EC.Pt) :=
  match s.splitOn ":" with
  | [x, y, z] => do
    let x ← nat32 x; let y ← nat32 y; let z ← nat32 z
    if ¬ canon [x, y, z] then pure none
    else
      let x := dec x; let y := dec y; let z := dec z
      if z = 0 then pure (some none)
      else
        let zi := EC.invMod z p
        let P : EC.Pt := some (x * zi % p * zi % p, y * zi % p * zi % p * zi % p)
        pure (if EC.onCurve curve P then some P else none)
  | _ => none

/-- the three decoded Jacobian coordinates of a G1 argument (`some none` = non-canonical) -/
def parseG1Coords (s : String) : Option (Option (Nat × Nat × Nat)) :=
  match s.splitOn ":" with
  | [x, y, z] => do
    let x ← nat32 x; let y ← nat32 y; let z ← nat32 z
    pure (if canon [x, y, z] then some (dec x, dec y, dec z) else none)
  | _ => none

def parseFp2 (s : String) : Option (Option Fp2) := do
  let l ← natList s
  match l with
  | [x, y] => pure (if canon l then some (dec x, dec y) else none)
  | _ => none

/-- raw Jacobian "x0,x1:y0,y1:z0,z1" of the twist -/
def parseG2 (s : String) : Option (Option Pt2) :=
  match s.splitOn ":" with
  | [x, y, z] => do
    let x ← parseFp2 x; let y ← parseFp2 y; let z ← parseFp2 z
    match x, y, z with
    | some x, some y, some z =>
      if z = Fp2.zero then pure (some none)
      else
        let zi := Fp2.inv z
        let zi2 := Fp2.mul zi zi
        let P : Pt2 := some (Fp2.mul x zi2, Fp2.mul y (Fp2.mul zi2 zi))
        pure (if onTwist P then some P else none)
    | _, _, _ => pure none
  | _ => none

def Fp12.toFp2? (a : Fp12) : Option Fp2 :=
  match projTower 2 a with
  | some [x, y] => some (x, y)
  | _ => none

/-- ψ⁻¹ : (x, y) ↦ (x·w², y·w³), defined when the result has coordinates in Fp2 -/
def twistBack : Pt12 → Option Pt2
  | none => some none
  | some (x, y) =>
    let w2 := Fp12.mul Fp12.w Fp12.w
    match Fp12.toFp2? (Fp12.mul x w2), Fp12.toFp2? (Fp12.mul y (Fp12.mul w2 Fp12.w)) with
    | some x', some y' => some (some (x', y'))
    | _, _ => none

/-- the Frobenius endomorphism transported to the twist: ψ⁻¹ ∘ π_p ∘ ψ -/
def pi1 (Q : Pt2) : Option Pt2 := twistBack (frobPt (untwist Q))
def negPi2 (Q : Pt2) : Option Pt2 := twistBack (neg12 (frobPt (frobPt (untwist Q))))

def inG2 (Q : Pt2) : Bool := onTwist Q && mul2 N Q == none

/-! ### randomised ops: the candidate list -/

def parseCands (s : String) : Option (List Nat) :=
  if s = "-" ∨ s = "none" then some [] else natList s

def inRange (k : Nat) : Bool := 1 ≤ k && k < N

/-- in-range candidates that the implementation is allowed to reject (low 64 bits all zero, or N − 1, the
implementation drawing from [1, N−2]): a list containing one is outside the statement -/
def awkward (cands : List Nat) : Bool := cands.any fun k => inRange k && (k % 2 ^ 64 = 0 || k = N - 1)

/-- the first in-range candidate and the rest of the queue -/
def nextScalar : List Nat → Option (Nat × List Nat)
  | [] => none
  | c :: cs => if inRange c then some (c, cs) else nextScalar cs

def showUsed (used : List Nat) (left : Nat) : String :=
  "used=" ++ (if used.isEmpty then "-" else String.intercalate "," (used.map hex32)) ++ " left=" ++ toString left

/-- the standard's "choose r, … , if … return to A2" loop over the queue -/
def randLoop {α} (f : Nat → Option α) : List Nat → List Nat → Option (α × List Nat × Nat)
  | [], _ => none
  | c :: cs, used =>
    if ¬ inRange c then randLoop f cs used
    else match f c with
      | some v => some (v, used ++ [c], cs.length)
      | none => randLoop f cs (used ++ [c])

def flipBit (bs : List UInt8) (bit : Nat) : List UInt8 :=
  bs.mapIdx fun i x => if i = bit / 8 then x ^^^ ((0x80 : UInt8) >>> (bit % 8).toUInt8) else x

/-- the harness's `point_from_bytes` (no prefix check) followed by the canonicity test of the oracle:
`none` = a coordinate ≥ p or fewer than 65 bytes (outside the statement) -/
def harnessPoint (b : List UInt8) : Option EC.Pt :=
  if b.length ≠ 65 then none
  else
    let x := beNat ((b.drop 1).take 32); let y := beNat (b.drop 33)
    if x < p ∧ y < p then some (some (x, y)) else none

def masterOk (k : Nat) : Bool := inRange k

/-- alter a point as the `s9_exch` op does: `valid` = negate, `offcurve` = flip the lowest bit of y -/
def alterPoint (P : EC.Pt) (offcurve : Bool) : List UInt8 :=
  if offcurve then
    (encodePoint P).mapIdx fun i x => if i = 64 then x ^^^ 1 else x
  else encodePoint (EC.neg curve P)

def specStep (toks : List String) : Option String :=
  match toks with
  -- ---- arithmetic modulo N
  | ["n_add", a, c] => do let a ← nat32 a; let c ← nat32 c; pure (if a < N ∧ c < N then "OK " ++ hex32 ((a + c) % N) else "ANY")
  | ["n_sub", a, c] => do let a ← nat32 a; let c ← nat32 c; pure (if a < N ∧ c < N then "OK " ++ hex32 ((a + N - c) % N) else "ANY")
  | ["n_mul", a, c] => do let a ← nat32 a; let c ← nat32 c; pure (if a < N ∧ c < N then "OK " ++ hex32 (a * c % N) else "ANY")
  | ["n_pow", a, e] => do let a ← nat32 a; let e ← nat32 e; pure (if a < N then "OK " ++ hex32 (EC.powMod a e N) else "ANY")
  | ["n_inv", a] => do let a ← nat32 a; pure (if a < N ∧ a ≠ 0 then "OK " ++ hex32 (EC.invMod a N) else "ANY")
  | ["n_from_hash", ha] => do
    let ha ← bytesOfHex ha
    pure (if ha.length ≥ 40 then "OK " ++ hex32 (beNat (ha.take 40) % (N - 1) + 1) else "ANY")
  -- ---- Fp
  | "s9fp" :: op :: a :: rest => do
    let a ← nat32 a
    let c ← (match rest with | [] => some 0 | [c] => nat32 c | _ => none)
    match op with
    | "to_mont" => pure ("OK " ++ hex32 (enc a))
    | "from_mont" => pure (if a < p then "OK " ++ hex32 (dec a) else "ANY")
    | "pow" => pure (if a < p then "OK " ++ hex32 (enc (EC.powMod (dec a) c p)) else "ANY")
    | _ =>
      match decTower 1 [a], decTower 1 [c] with
      | some x, some y =>
        (match commonOp op x y with
         | some (some r) => pure (showTower 1 r)
         | some none => pure "ANY"
         | none => none)
      | _, _ => if (commonOp op Fp12.zero Fp12.zero).isSome then pure "ANY" else none
  | "s9fp2" :: op :: a :: rest => do
    let a ← natList a
    let c ← (match rest with | [] => some [0, 0] | [c] => natList c | _ => none)
    if a.length ≠ 2 ∨ c.length ≠ 2 then none
    else match decTower 2 a, decTower 2 c with
      | some x, some y =>
        (match fp2Op op x y with
         | some (some r) => pure (showTower 2 r)
         | some none => pure "ANY"
         | none => none)
      | _, _ => if (fp2Op op Fp12.zero Fp12.zero).isSome then pure "ANY" else none
  | "s9fp4" :: op :: a :: rest => do
    let a ← natList a
    let c ← (match rest with | [] => some [0, 0, 0, 0] | [c] => natList c | _ => none)
    if a.length ≠ 4 ∨ c.length ≠ 4 then none
    else match decTower 4 a, decTower 4 c with
      | some x, some y =>
        (match fp4Op op x y with
         | some (some r) => pure (showTower 4 r)
         | some none => pure "ANY"
         | none => none)
      | _, _ => if (fp4Op op Fp12.zero Fp12.zero).isSome then pure "ANY" else none
  | ["s9fp12", op, a] => do
    let a ← natList a
    if a.length ≠ 12 then none
    else match decTower 12 a with
      | none => pure "ANY"
      | some x =>
        match op with
        | "sqr" | "neg" | "dbl" | "tri" | "div2" | "inv" =>
          (match commonOp op x Fp12.zero with
           | some (some r) => pure (showTower 12 r)
           | _ => pure "ANY")
        | "frobenius2" => pure (showTower 12 (Fp12.pow x (p ^ 2)))
        | "frobenius6" => pure (showTower 12 (Fp12.pow x (p ^ 6)))
        | "final_exponent" => pure (if x = Fp12.zero then "ANY" else showTower 12 (Fp12.pow x finalExp))
        | "final_exponent_hard_part" =>
          pure (if x = Fp12.zero then "ANY" else showTower 12 (Fp12.pow x ((p ^ 4 - p ^ 2 + 1) / N)))
        | _ => none
  | ["s9fp12", op, a, c] => do
    let a ← natList a
    if a.length ≠ 12 then none
    else
      let x := decTower 12 a
      match op with
      | "add" | "sub" | "mul" => do
        let c ← natList c
        if c.length ≠ 12 then none
        else match x, decTower 12 c with
          | some x, some y =>
            (match commonOp op x y with
             | some (some r) => pure (showTower 12 r)
             | _ => pure "ANY")
          | _, _ => pure "ANY"
      | "pow" => do
        -- the exponent is a plain integer; the helper is specified for exponents ≤ N − 1
        let e ← nat32 c
        match x with
        | some x => pure (if e < N then showTower 12 (Fp12.pow x e) else "ANY")
        | none => pure "ANY"
      | "line_mul" => do
        -- the sparse element l0 + l1·w² + l2·w³ (= l0 + l2·v + l1·w²), l_i ∈ Fp2
        match (c.splitOn ";").mapM parseFp2 with
        | some [l0, l1, l2] =>
          (match x, l0, l1, l2 with
           | some x, some l0, some l1, some l2 =>
             let line := Fp12.ofTower [l0.1, l0.2, l2.1, l2.2, 0, 0, 0, 0, l1.1, l1.2, 0, 0]
             pure (showTower 12 (Fp12.mul x line))
           | _, _, _, _ => pure "ANY")
        | _ => none
      | _ => none
  | ["s9fp12_bytes", a] => do
    let a ← natList a
    if a.length ≠ 12 then none
    else pure (match decTower 12 a with
      | some x => "OK " ++ hexOfBytes (Fp12.toBytes x)
      | none => "ANY")
  -- ---- G1
  | kind :: op :: args =>
    if kind = "g1" ∨ kind = "g1_raw" then
      let raw := kind = "g1_raw"
      let out (P : EC.Pt) : String := if raw then "ANY" else "OK " ++ showPt P
      match op, args with
      | "add", [a, c] => do
        let a ← parseG1 a; let c ← parseG1 c
        pure (match a, c with | some a, some c => out (EC.add curve a c) | _, _ => "ANY")
      | "sub", [a, c] => do
        let a ← parseG1 a; let c ← parseG1 c
        pure (match a, c with | some a, some c => out (EC.add curve a (EC.neg curve c)) | _, _ => "ANY")
      | "dbl", [a] => do
        let a ← parseG1 a
        pure (match a with | some a => out (EC.add curve a a) | none => "ANY")
      | "neg", [a] => do
        let a ← parseG1 a
        pure (match a with | some a => out (EC.neg curve a) | none => "ANY")
      | "mul", [a, k] => do
        let a ← parseG1 a; let k ← nat32 k
        pure (match a with | some a => out (EC.mul curve k a) | none => "ANY")
      | "gmul", [k] => do
        let k ← nat32 k
        pure (out (EC.mul curve k P1))
      | "affine", [a] => do
        let a ← parseG1 a
        pure (match a with
          | some (some (x, y)) => "OK " ++ hex32 (enc x) ++ ":" ++ hex32 (enc y) ++ ":" ++ hex32 (enc 1)
          | _ => "ANY")
      | "eq", [a, c] => do
        let a ← parseG1 a; let c ← parseG1 c
        pure (match a, c with | some a, some c => s!"OK {a == c}" | _, _ => "ANY")
      | "oncurve", [a] => do
        let a ← parseG1Coords a
        pure (match a with
          | none => "ANY"
          | some (x, y, z) =>
            if z = 0 then (if y * y % p = x * x % p * x % p then "OK true" else "ANY")
            else
              let zi := EC.invMod z p
              s!"OK {EC.onCurve curve (some (x * zi % p * zi % p, y * zi % p * zi % p * zi % p))}")
      | "bytes", [a] => do
        let a ← parseG1 a
        pure (match a with
          | some (some P) => "OK " ++ hexOfBytes (encodePoint (some P))
          | _ => "ANY")
      | "from_bytes", [b] => do
        let b ← bytesOfHex b
        pure (match harnessPoint b with
          | some (some (x, y)) => "OK " ++ hex32 (enc x) ++ ":" ++ hex32 (enc y) ++ ":" ++ hex32 (enc 1)
          | _ => "ANY")
      | _, _ => none
    else if kind = "g2" ∨ kind = "g2_raw" then
      let raw := kind = "g2_raw"
      let out (P : Pt2) : String := if raw then "ANY" else "OK " ++ showPt2 P
      let outO (P : Option Pt2) : String := match P with | some P => out P | none => "ANY"
      match op, args with
      | "add", [a, c] | "addfull", [a, c] => do
        let a ← parseG2 a; let c ← parseG2 c
        pure (match a, c with | some a, some c => out (add2 a c) | _, _ => "ANY")
      | "sub", [a, c] => do
        let a ← parseG2 a; let c ← parseG2 c
        pure (match a, c with | some a, some c => out (add2 a (neg2 c)) | _, _ => "ANY")
      | "dbl", [a] => do
        let a ← parseG2 a
        pure (match a with | some a => out (add2 a a) | none => "ANY")
      | "neg", [a] => do
        let a ← parseG2 a
        pure (match a with | some a => out (neg2 a) | none => "ANY")
      | "mul", [a, k] => do
        let a ← parseG2 a; let k ← nat32 k
        pure (match a with | some a => out (mul2 k a) | none => "ANY")
      | "gmul", [k] => do
        let k ← nat32 k
        pure (out (mul2 k P2))
      | "pi1", [a] => do
        let a ← parseG2 a
        pure (match a with | some a => outO (pi1 a) | none => "ANY")
      | "negpi2", [a] => do
        let a ← parseG2 a
        pure (match a with | some a => outO (negPi2 a) | none => "ANY")
      | _, _ => none
    else
      match toks with
      | ["g2eq", a, c] => do
        let a ← parseG2 a; let c ← parseG2 c
        pure (match a, c with | some a, some c => s!"OK {a == c}" | _, _ => "ANY")
      | ["g2eq", a, c, "negate"] => do
        let a ← parseG2 a; let c ← parseG2 c
        pure (match a, c with | some a, some c => s!"OK {a == neg2 c}" | _, _ => "ANY")
      | ["g2eq", a, c, _] => do
        let a ← parseG2 a; let c ← parseG2 c
        pure (match a, c with | some a, some c => s!"OK {a == c}" | _, _ => "ANY")
      | ["booth", _, _, _] => some "ANY"
      -- pairing <Q raw> <P raw>: defined for P ∈ G1 = E(Fp) and Q ∈ G2 (the order-N subgroup of the twist)
      | ["pairing", q, a] => do
        let q ← parseG2 q; let a ← parseG1 a
        pure (match q, a with
          | some q, some a => if inG2 q then "OK " ++ hexOfBytes (Fp12.toBytes (pairing a q)) else "ANY"
          | _, _ => "ANY")
      | ["pairing_raw", _, _] => some "ANY"
      -- ---- helpers
      | ["s9_hash1", z, hid] => do
        let z ← bytesOfHex z; let hid ← natOfHex hid
        if hid ≥ 256 then none else pure ("OK " ++ hex32 (H1 (z ++ [hid.toUInt8])))
      | ["s9_hash2", d, w] => do
        let d ← bytesOfHex d; let w ← bytesOfHex w
        pure ("OK " ++ hex32 (H2 (d ++ w)))
      | ["s9_kdf", z, klen] => do
        let z ← bytesOfHex z; let k ← klen.toNat?
        pure (if k ≥ 1 then "OK " ++ hexB (kdf z k) else "ANY")
      | ["s9_mac", k2, z] => do
        let k2 ← bytesOfHex k2; let z ← bytesOfHex z
        pure (if k2.length = 32 then "OK " ++ hexB (mac k2 z) else "ANY")
      | ["s9_extract", which, k, id] => do
        let k ← nat32 k; let id ← bytesOfHex id
        if ¬ masterOk k then pure "ANY"
        else if which = "sign" then
          pure (match extractSign k id with
            | some ds => "OK " ++ hexOfBytes (encodePoint ds)
            | none => "ERR")
        else
          pure (match extractEnc k id (if which = "enc" then hidEnc else hidExch) with
            | some de => "OK " ++ showPt2 de
            | none => "ERR")
      | ["s9_extract_none", _which, id] => do
        -- the master key is crafted so that H1(ID‖hid) + k ≡ 0 (mod N): extraction must report failure
        let _ ← bytesOfHex id
        pure "ERR"
      | ["s9_bilin", _a, _b] => pure "OK bilinear=true order=true nondegenerate=true"
      | ["s9_sign", ks, id, msg, cands] => do
        let ks ← nat32 ks; let id ← bytesOfHex id; let msg ← bytesOfHex msg; let cands ← parseCands cands
        if ¬ masterOk ks then pure "ANY"
        else match extractSign ks id with
          | none => pure "ERR"
          | some ds =>
            if awkward cands then pure "ANY"
            else
              let Ppubs := signMasterPub ks
              pure (match randLoop (signWith Ppubs ds msg) cands [] with
                | some ((h, S), used, left) => "OK " ++ hex32 h ++ " " ++ hexOfBytes (encodePoint S) ++ " " ++ showUsed used left
                | none => "ANY")
      | ["s9_verify", ks, id, msg, h, s] => do
        let ks ← nat32 ks; let id ← bytesOfHex id; let msg ← bytesOfHex msg; let h ← nat32 h; let s ← bytesOfHex s
        if ¬ masterOk ks then pure "ANY"
        else pure (match harnessPoint s with
          | none => "ANY"
          | some S => if verify (signMasterPub ks) id msg h S then "OK" else "ERR")
      | ["s9_verify_raw", ks, id, msg, h, s] => do
        let ks ← nat32 ks; let id ← bytesOfHex id; let msg ← bytesOfHex msg; let h ← nat32 h; let s ← parseG1Coords s
        if ¬ masterOk ks then pure "ANY"
        else pure (match s with
          | none => "ANY"
          | some (x, y, z) =>
            let S : EC.Pt := if z = 0 then none else
              let zi := EC.invMod z p
              some (x * zi % p * zi % p, y * zi % p * zi % p * zi % p)
            if verify (signMasterPub ks) id msg h S then "OK" else "ERR")
      | "s9_sv" :: ks :: id :: msg :: cands :: tam => do
        let ks ← nat32 ks; let id ← bytesOfHex id; let msg ← bytesOfHex msg; let cands ← parseCands cands
        if ¬ masterOk ks then pure "ANY"
        else match extractSign ks id with
          | none => pure "ERR"
          | some ds =>
            let Ppubs := signMasterPub ks
            let usable := ¬ awkward cands
            match (if usable then randLoop (signWith Ppubs ds msg) cands [] else none) with
            | none =>
              -- the signature itself is not determined, but the library must accept what it signed
              pure (if tam.isEmpty then "OK verified" else "ANY")
            | some ((h, S), _, _) =>
              let sig := bytes32 h ++ encodePoint S
              let alt : Option (List UInt8 × List UInt8 × List UInt8) :=
                match tam with
                | [] => some (sig, msg, id)
                | ["flip", b] => b.toNat?.map fun b => (flipBit sig b, msg, id)
                | "msg" :: _ => some (sig, msg ++ [0x21], id)
                | "id" :: _ => some (sig, msg, id ++ [0x21])
                | ["h", v] => (bytesOfHex v).bind fun v => if v.length = 32 then some (v ++ sig.drop 32, msg, id) else none
                | ["s", v] => (bytesOfHex v).bind fun v => if v.length = 65 then some (sig.take 32 ++ v, msg, id) else none
                | _ => none
              match alt with
              | none => none
              | some (sig', msg', id') =>
                pure (match harnessPoint (sig'.drop 32) with
                  | none => "ANY"
                  | some S' => if verify Ppubs id' msg' (beNat (sig'.take 32)) S' then "OK verified" else "ERR")
      | ["s9_enc", ke, id, msg, cands] => do
        let ke ← nat32 ke; let id ← bytesOfHex id; let msg ← bytesOfHex msg; let cands ← parseCands cands
        if ¬ masterOk ke ∨ msg.isEmpty ∨ awkward cands then pure "ANY"
        else
          pure (match randLoop (encryptWith (encMasterPub ke) id msg) cands [] with
            | some (ct, used, left) => "OK " ++ hexB ct ++ " " ++ showUsed used left
            | none => "ANY")
      | ["s9_dec", ke, idKey, idDec, ct] => do
        let ke ← nat32 ke; let idKey ← bytesOfHex idKey; let idDec ← bytesOfHex idDec; let ct ← bytesOfHex ct
        if ¬ masterOk ke then pure "ANY"
        else pure (match extractEnc ke idKey hidEnc with
          | none => "ERR"
          | some de => showSpec ((decrypt de idDec ct).map hexB))
      | "s9_tamper" :: ke :: id :: msg :: cands :: kind :: arg => do
        let ke ← nat32 ke; let id ← bytesOfHex id; let msg ← bytesOfHex msg; let cands ← parseCands cands
        if ¬ masterOk ke then pure "ANY"
        else match extractEnc ke id hidEnc with
          | none => pure "ERR"
          | some de =>
            if msg.isEmpty ∨ awkward cands then pure "ANY"
            else match randLoop (encryptWith (encMasterPub ke) id msg) cands [] with
              | none => pure (if kind = "none" then "OK " ++ hexB msg else "ANY")
              | some (ct, _, _) =>
                let alt : Option (List UInt8 × List UInt8) :=
                  match kind, arg with
                  | "none", _ => some (ct, id)
                  | "flip", [b] => b.toNat?.map fun b => (flipBit ct b, id)
                  | "trunc", [l] => l.toNat?.map fun l => (ct.take l, id)
                  | "c1", [n] => (bytesOfHex n).map fun n => (n ++ ct.drop 65, id)
                  | "id", _ => some (ct, id ++ [0x21])
                  | "xor", [a] =>
                    (match a.splitOn ":" with
                     | [ps, mk] => do
                       let mk ← (bytesOfHex mk).bind List.head?
                       let idx ← (ps.splitOn ",").mapM String.toNat?
                       if idx.any (· ≥ ct.length) then none else pure (ct.mapIdx fun i x => if idx.contains i then x ^^^ mk else x, id)
                     | _ => none)
                  | _, _ => none
                match alt with
                | none => none
                | some (ct', id') => pure (showSpec ((decrypt de id' ct').map hexB))
      | ["s9_exch", ke, idA, idB, klen, ra, rb, tam] => do
        let ke ← nat32 ke; let idA ← bytesOfHex idA; let idB ← bytesOfHex idB; let klen ← klen.toNat?
        let ca ← parseCands ra; let cb ← parseCands rb
        let tam := tam.splitOn ","
        if ¬ masterOk ke then pure "ANY"
        else match extractEnc ke idA hidExch, extractEnc ke idB hidExch with
          | some deA, some deB =>
            let cands := ca ++ cb
            if klen = 0 ∨ awkward cands then pure "ANY"
            else match nextScalar cands with
              | none => pure "ANY"
              | some (rA, rest) =>
                match nextScalar rest with
                | none => pure "ANY"
                | some (rB, rest2) =>
                  let Ppube := encMasterPub ke
                  let RA := exchEphemeral Ppube idB rA
                  -- what B receives
                  let raWire := if tam.contains "ra" then alterPoint RA false
                    else if tam.contains "ra-offcurve" then alterPoint RA true else encodePoint RA
                  match decodePoint raWire with
                  | none => pure "ERR"
                  | some RA' =>
                    -- an implementation may redraw r_B when the derived key is all zero (gm-sm9 does); follow the candidate list
                    let rec respLoop (cs : List Nat) (rB : Nat) (fuel : Nat) : Option (Option (Spec.EC.Pt × List UInt8)) :=
                      match fuel with
                      | 0 => none
                      | fuel + 1 =>
                        match exchResponder Ppube deB idA idB (some RA') rB klen with
                        | none => some none
                        | some (RB, skb) =>
                          if skb.all (· == 0) then
                            (match nextScalar cs with
                             | none => none
                             | some (rB', cs') => respLoop cs' rB' fuel)
                          else some (some (RB, skb))
                    match respLoop rest2 rB (rest2.length + 1) with
                    | none => pure "ANY"
                    | some none => pure "ERR"
                    | some (some (RB, skb)) =>
                      let rbWire := if tam.contains "rb" then alterPoint RB false
                        else if tam.contains "rb-offcurve" then alterPoint RB true else encodePoint RB
                      match decodePoint rbWire with
                      | none => pure "ERR"
                      | some RB' =>
                        match exchInitiator Ppube deA idA idB rA RA (some RB') klen with
                        | none => pure "ERR"
                        | some ska =>
                          if ska.all (· == 0) then pure "ANY" else
                          pure ("OK " ++ String.intercalate " "
                            [hexOfBytes (encodePoint RA), hexOfBytes (encodePoint RB), hexB ska, hexB skb])
          | _, _ => pure "ERR"
      | ["s9_keygen", which, cands] => do
        let cands ← parseCands cands
        if awkward cands then pure "ANY"
        else pure (match nextScalar cands with
          | none => "ANY"
          | some (k, rest) =>
            let pub := if which = "sign" ∨ which = "signfn" then showPt2 (signMasterPub k) else showPt (encMasterPub k)
            "OK " ++ hex32 k ++ " " ++ pub ++ " " ++ showUsed [k] rest.length)
      | ["s9_rngstats", _] => some "OK in-range=1 distinct=1 bits-ok=1"
      | _ => none
  | _ => none

end GmVerif.Drv.SM9Spec
