/-
Driver ops for SM9, impl side: every op of harness/src/sm9_ops.rs on the executable model `Impl.SM9.*`, with the same
argument and output formats.  Field values travel as raw Montgomery limbs (32-byte big-endian hex each).
An op whose arguments cannot be parsed the way the harness parses them (`unwrap`, `assert!`, indexing) prints `PANIC`
like the harness; an unknown sub-op of `s9fp` / `g1` / `g2` prints `BADOP`.  `s9_rngstats` is not implemented.
-/
import GmVerif.Drv.Util
import GmVerif.Impl.SM9.Key
namespace GmVerif.Drv.SM9Impl
open GmVerif GmVerif.Drv GmVerif.Impl.SM9

def hex32 (x : Nat) : String := hexOfBytes (natBE 32 x)

/-- `u(s)`: exactly 32 bytes of hex -/
def nat32 (s : String) : Option Nat :=
  match bytesOfHex s with
  | some b => if b.length = 32 then some (beNat b) else none
  | none => none

/-- `us(s)`: comma-separated u256 values -/
def nats (s : String) : Option (List Nat) :=
  (s.splitOn ",").foldr (fun w acc => match nat32 w, acc with
    | some n, some l => some (n :: l)
    | _, _ => none) (some [])

def fp2Of : List Nat → Option Fp2
  | a :: b :: _ => some ⟨a, b⟩
  | _ => none
def fp4Of (v : List Nat) : Option Fp4 := do
  let a ← fp2Of v; let b ← fp2Of (v.drop 2)
  if v.length < 4 then none else pure ⟨a, b⟩
def fp12Of (v : List Nat) : Option Fp12 := do
  if v.length < 12 then none
  let a ← fp4Of v; let b ← fp4Of (v.drop 4); let c ← fp4Of (v.drop 8)
  pure ⟨a, b, c⟩
def pFp2 (s : String) : Option Fp2 := (nats s).bind fp2Of
def pFp4 (s : String) : Option Fp4 := (nats s).bind fp4Of
def pFp12 (s : String) : Option Fp12 := (nats s).bind fp12Of

def raw2 (a : Fp2) : String := hex32 a.c0 ++ "," ++ hex32 a.c1
def raw4 (a : Fp4) : String := raw2 a.c0 ++ "," ++ raw2 a.c1
def raw12 (a : Fp12) : String := raw4 a.c0 ++ "," ++ raw4 a.c1 ++ "," ++ raw4 a.c2

/-- "x:y:z" raw -/
def pG1 (s : String) : Option Point :=
  match s.splitOn ":" with
  | x :: y :: z :: _ => do let x ← nat32 x; let y ← nat32 y; let z ← nat32 z; pure ⟨x, y, z⟩
  | _ => none
def g1raw (p : Point) : String := hex32 p.x ++ ":" ++ hex32 p.y ++ ":" ++ hex32 p.z
def g1aff (p : Point) : String :=
  if p.is_zero then "inf" else
    let a := p.to_affine_point
    hex32 (fp_from_mont a.x) ++ "," ++ hex32 (fp_from_mont a.y)

/-- "x0,x1:y0,y1:z0,z1" raw -/
def pG2 (s : String) : Option TwistPoint :=
  match s.splitOn ":" with
  | x :: y :: z :: _ => do let x ← pFp2 x; let y ← pFp2 y; let z ← pFp2 z; pure ⟨x, y, z⟩
  | _ => none
def g2raw (p : TwistPoint) : String := raw2 p.x ++ ":" ++ raw2 p.y ++ ":" ++ raw2 p.z
/-- canonical affine "x0,x1;y0,y1" or "inf" (computed the way the harness computes it) -/
def g2aff (p : TwistPoint) : String :=
  if p.z.is_zero then "inf" else
    let zi := p.z.fp_inv
    let zi2 := zi.fp_sqr
    let x := p.x.fp_mul zi2
    let y := (p.y.fp_mul zi2).fp_mul zi
    let c (a : Fp2) : String := hex32 (fp_from_mont a.c0) ++ "," ++ hex32 (fp_from_mont a.c1)
    c x ++ ";" ++ c y

def parseCands (s : String) : Option (List (List UInt8)) :=
  if s = "-" ∨ s = "none" then some [] else
    (s.splitOn ",").foldr (fun c acc => match bytesOfHex c, acc with
      | some b, some l => if b.length = 32 then some (b :: l) else none
      | _, _ => none) (some [])

def logStr (used : List Nat) (rest : List (List UInt8)) : String :=
  "used=" ++ (if used.isEmpty then "-" else String.intercalate "," (used.map hex32)) ++ " left=" ++ toString rest.length

/-- print an outcome; every error of the library is shown with the harness' label `kind` -/
def showAs (kind : String) (o : Outcome String) : String :=
  match o with
  | .ok s => if s.isEmpty then "OK" else "OK " ++ s
  | .err e => if e = "rng-exhausted" then "ERR rng-exhausted" else "ERR " ++ kind
  | .panic => "PANIC"

def signMaster (ks : Nat) : Sm9SignMasterKey := ⟨ks, TwistPoint.g_mul ks⟩
def encMaster (ke : Nat) : Outcome Sm9EncMasterKey := (Point.g_mul ke).map fun p => ⟨ke, p⟩

/-- `aff:<ke>`: the harness holds the master public key in affine form (`g_mul(ke).to_affine_point()`, as after decoding
    it from octets); plain `<ke>`: the Jacobian output of `g_mul` -/
def keArg (s : String) : Option (Nat × Bool) :=
  if s.startsWith "aff:" then (nat32 (s.drop 4).toString).map fun k => (k, true) else (nat32 s).map fun k => (k, false)
def encMasterA (ka : Nat × Bool) : Outcome Sm9EncMasterKey :=
  (encMaster ka.1).map fun m => if ka.2 then ⟨m.ke, m.ppube.to_affine_point⟩ else m

/-- `Option` returned by `extract_*` → error "None" -/
def orNone {α} (o : Outcome (Option α)) : Outcome α :=
  o.bind fun x => match x with | some v => .ok v | none => .err "None"

def fp2Op (op : String) (a b : Fp2) : Outcome Fp2 :=
  match op with
  | "add" => .ok (a.fp_add b) | "sub" => .ok (a.fp_sub b) | "mul" => .ok (a.fp_mul b) | "sqr" => .ok a.fp_sqr
  | "neg" => .ok a.fp_neg | "dbl" => .ok a.fp_double | "tri" => .ok a.fp_triple | "div2" => .ok a.fp_div2
  | "inv" => .ok a.fp_inv | "div" => .ok (a.div b) | "conjugate" => .ok a.conjugate | "a_mul_u" => .ok a.a_mul_u
  | "mul_u" => .ok (a.fp_mul_u b) | "sqr_u" => .ok a.sqr_u | "mul_fp" => .ok (a.fp_mul_fp b.c0)
  | _ => .panic

def fp4Op (op : String) (a b : Fp4) : Outcome Fp4 :=
  match op with
  | "add" => .ok (a.fp_add b) | "sub" => .ok (a.fp_sub b) | "mul" => .ok (a.fp_mul b) | "sqr" => .ok a.fp_sqr
  | "neg" => .ok a.fp_neg | "dbl" => .ok a.fp_double | "tri" => .ok a.fp_triple | "div2" => .ok a.fp_div2
  | "inv" => .ok a.fp_inv | "mul_v" => .ok (a.fp_mul_v b) | "a_mul_v" => .ok a.a_mul_v | "conjugate" => .ok a.conjugate
  | "sqr_v" => .ok a.sqr_v | "mul_fp" => .ok (a.fp_mul_fp b.c0.c0) | "mul_fp2" => .ok (a.fp_mul_fp2 b.c0)
  | _ => .panic

/-- `s9fp12 <op> a [arg]`; `none` = the harness would panic while parsing -/
def fp12Op (op : String) (a : Fp12) (arg : Option String) : Option (Outcome Fp12) :=
  match op with
  | "add" => do let b ← arg.bind pFp12; pure (.ok (a.fp_add b))
  | "sub" => do let b ← arg.bind pFp12; pure (.ok (a.fp_sub b))
  | "mul" => do let b ← arg.bind pFp12; pure (.ok (a.fp_mul b))
  | "sqr" => some (.ok a.fp_sqr) | "neg" => some (.ok a.fp_neg) | "dbl" => some (.ok a.fp_double)
  | "tri" => some (.ok a.fp_triple) | "div2" => some (.ok a.fp_div2) | "inv" => some (.ok a.fp_inv)
  | "pow" => do let e ← arg.bind nat32; pure (a.pow e)
  | "line_mul" => do
    let s ← arg
    match s.splitOn ";" with
    | l0 :: l1 :: l2 :: _ => do
      let l0 ← pFp2 l0; let l1 ← pFp2 l1; let l2 ← pFp2 l2
      pure (.ok (a.fp_line_mul ⟨l0, l1, l2⟩))
    | _ => none
  | "frobenius2" => some (.ok a.fp12_frobenius2)
  | "frobenius6" => some (.ok a.fp12_frobenius6)
  | "final_exponent" => some (.ok a.final_exponent)
  | "final_exponent_hard_part" => some (.ok a.final_exponent_hard_part)
  | _ => some .panic

def g1Op (raw : Bool) (op : String) (args : List String) : Option String :=
  let show_ (p : Point) : String := if raw then g1raw p else g1aff p
  match op, args with
  | "add", [p, q] => do let p ← pG1 p; let q ← pG1 q; pure ("OK " ++ show_ (p.point_add q))
  | "sub", [p, q] => do let p ← pG1 p; let q ← pG1 q; pure ("OK " ++ show_ (p.point_sub q))
  | "dbl", [p] => do let p ← pG1 p; pure ("OK " ++ show_ p.point_double)
  | "neg", [p] => do let p ← pG1 p; pure ("OK " ++ show_ p.point_neg)
  | "mul", [p, k] => do let p ← pG1 p; let k ← nat32 k; pure (showOut ((p.point_mul k).map show_))
  | "gmul", [k] => do let k ← nat32 k; pure (showOut ((Point.g_mul k).map show_))
  | "affine", [p] => do let p ← pG1 p; pure ("OK " ++ g1raw p.to_affine_point)
  | "eq", [p, q] => do let p ← pG1 p; let q ← pG1 q; pure s!"OK {p.point_equals q}"
  | "oncurve", [p] => do let p ← pG1 p; pure s!"OK {p.is_on_curve}"
  | "bytes", [p] => do let p ← pG1 p; pure ("OK " ++ hexB p.to_bytes_be)
  | "from_bytes", [b] => do let b ← bytesOfHex b; pure (showOut ((Point.from_bytes b).map g1raw))
  | _, _ => none

def g2Op (raw : Bool) (op : String) (args : List String) : Option String :=
  let show_ (p : TwistPoint) : String := if raw then g2raw p else g2aff p
  match op, args with
  | "add", [p, q] => do let p ← pG2 p; let q ← pG2 q; pure ("OK " ++ show_ (p.point_add q))
  | "addfull", [p, q] => do let p ← pG2 p; let q ← pG2 q; pure ("OK " ++ show_ (twist_point_add_full p q))
  | "sub", [p, q] => do let p ← pG2 p; let q ← pG2 q; pure ("OK " ++ show_ (p.point_sub q))
  | "dbl", [p] => do let p ← pG2 p; pure ("OK " ++ show_ p.point_double)
  | "neg", [p] => do let p ← pG2 p; pure ("OK " ++ show_ p.point_neg)
  | "mul", [p, k] => do let p ← pG2 p; let k ← nat32 k; pure ("OK " ++ show_ (p.point_mul k))
  | "gmul", [k] => do let k ← nat32 k; pure ("OK " ++ show_ (TwistPoint.g_mul k))
  | "pi1", [p] => do let p ← pG2 p; pure ("OK " ++ show_ p.point_pi1)
  | "negpi2", [p] => do let p ← pG2 p; pure ("OK " ++ show_ p.point_neg_pi2)
  | _, _ => none

def isG1Op (op : String) : Bool :=
  ["add", "sub", "dbl", "neg", "mul", "gmul", "affine", "eq", "oncurve", "bytes", "from_bytes"].contains op
def isG2Op (op : String) : Bool :=
  ["add", "addfull", "sub", "dbl", "neg", "mul", "gmul", "pi1", "negpi2"].contains op

/-- `sig[b / 8] ^= 0x80 >> (b % 8)`; `none` = index out of range (panic) -/
def flipBit (bs : List UInt8) (b : Nat) : Option (List UInt8) :=
  if b / 8 < bs.length then
    some (bs.mapIdx fun i x => if i = b / 8 then x ^^^ ((0x80 : UInt8) >>> (b % 8).toUInt8) else x)
  else none

/-- the tampering of `s9_sv` on (sig, msg, id); `none` = the harness panics -/
def svTamper (sig msg id : List UInt8) (kind : String) (arg : Option String) :
    Option (List UInt8 × List UInt8 × List UInt8) :=
  match kind with
  | "flip" => do let b ← (← arg).toNat?; let s ← flipBit sig b; pure (s, msg, id)
  | "msg" => some (sig, msg ++ [0x21], id)
  | "id" => some (sig, msg, id ++ [0x21])
  | "h" => do let v ← bytesOfHex (← arg); if v.length = 32 then pure (v ++ sig.drop 32, msg, id) else none
  | "s" => do let v ← bytesOfHex (← arg); if v.length = sig.length - 32 then pure (sig.take 32 ++ v, msg, id) else none
  | _ => none

/-- the tampering of `s9_tamper` on (ct, id) -/
def encTamper (ct id : List UInt8) (kind : String) (arg : Option String) : Option (List UInt8 × List UInt8) :=
  match kind with
  | "none" => some (ct, id)
  | "flip" => do let b ← (← arg).toNat?; let c ← flipBit ct b; pure (c, id)
  | "trunc" => do let l ← (← arg).toNat?; pure (ct.take l, id)
  | "c1" => do let n ← bytesOfHex (← arg); if ct.length < 65 then none else pure (n ++ ct.drop 65, id)
  | "id" => some (ct, id ++ [0x21])
  | "xor" => do
    let a ← arg
    match a.splitOn ":" with
    | [ps, mk] =>
      let mk ← (bytesOfHex mk).bind List.head?
      let idx ← (ps.splitOn ",").mapM String.toNat?
      if idx.any (· ≥ ct.length) then none else pure (ct.mapIdx fun i x => if idx.contains i then x ^^^ mk else x, id)
    | _ => none
  | _ => none

def svOp (ks : Nat) (id msg : List UInt8) (cands : List (List UInt8)) (tam : Option (String × Option String)) : String :=
  let m := signMaster ks
  match orNone (m.extract_key id) with
  | .err _ => "ERR None"
  | .panic => "PANIC"
  | .ok key =>
    match key.sign msg cands with
    | .err e => if e = "rng-exhausted" then "ERR rng-exhausted" else "ERR Sign"
    | .panic => "PANIC"
    | .ok r =>
      let (hh, s) := r.val
      let sig := natBE 32 hh ++ s.to_bytes_be
      let t := match tam with
        | none => some (sig, msg, id)
        | some (kind, arg) => svTamper sig msg id kind arg
      match t with
      | none => "PANIC"
      | some (sig, msg, id) =>
        showAs "Verify" ((Point.from_bytes (sig.drop 32)).bind fun s2 =>
          (m.verify_sign id msg (beNat (sig.take 32)) s2).map fun _ => "verified")

def tamperOp (ke : Nat × Bool) (id msg : List UInt8) (cands : List (List UInt8)) (kind : String) (arg : Option String) : String :=
  match encMasterA ke with
  | .err _ => "ERR"
  | .panic => "PANIC"
  | .ok m =>
    match orNone (m.extract_key id) with
    | .err _ => "ERR None"
    | .panic => "PANIC"
    | .ok key =>
      match m.encrypt id msg cands with
      | .err e => "ERR " ++ e
      | .panic => "PANIC"
      | .ok r =>
        match encTamper r.val id kind arg with
        | none => "PANIC"
        | some (ct, did) => showAs "Decrypt" ((key.decrypt did ct).map hexB)

/-- what the harness' `alter` does to a point in transit -/
def alter (p : Point) (offcurve : Bool) : Outcome Point :=
  if offcurve then
    let b := p.to_bytes_be
    Point.from_bytes (b.mapIdx fun i x => if i = 64 then x ^^^ 1 else x)
  else Point.from_bytes p.point_neg.to_bytes_be

def exchOp (ke : Nat × Bool) (ida idb : List UInt8) (klen : Nat) (cands : List (List UInt8)) (tam : List String) : String :=
  match encMasterA ke with
  | .err _ => "ERR"
  | .panic => "PANIC"
  | .ok m =>
    match orNone (m.extract_exch_key ida) with
    | .err _ => "ERR None"
    | .panic => "PANIC"
    | .ok key_a =>
    match orNone (m.extract_exch_key idb) with
    | .err _ => "ERR None"
    | .panic => "PANIC"
    | .ok key_b =>
    match exch_step_1a m idb cands with
    | .err e => "ERR " ++ e
    | .panic => "PANIC"
    | .ok r1 =>
      let (ra, ra_) := r1.val
      let ra_b := if tam.contains "ra" then alter ra false else if tam.contains "ra-offcurve" then alter ra true else .ok ra
      match ra_b with
      | .err e => "ERR " ++ e
      | .panic => "PANIC"
      | .ok ra_b =>
      match exch_step_1b m ida idb key_b ra_b klen r1.rest with
      | .err e => if e = "rng-exhausted" then "ERR rng-exhausted" else "ERR step1b"
      | .panic => "PANIC"
      | .ok r2 =>
        let (rb, skb) := r2.val
        let rb_a := if tam.contains "rb" then alter rb false else if tam.contains "rb-offcurve" then alter rb true else .ok rb
        match rb_a with
        | .err e => "ERR " ++ e
        | .panic => "PANIC"
        | .ok rb_a =>
        match exch_step_2a m ida idb key_a ra_ ra rb_a klen with
        | .err _ => "ERR step2a"
        | .panic => "PANIC"
        | .ok ska =>
          "OK " ++ String.intercalate " " [hexB ra.to_bytes_be, hexB rb.to_bytes_be, hexB ska, hexB skb]

/-- the ops proper; `none` = arguments not parseable -/
def run (toks : List String) : Option String :=
  match toks with
  | ["n_add", a, b] => do let a ← nat32 a; let b ← nat32 b; pure ("OK " ++ hex32 (mod_n_add a b))
  | ["n_sub", a, b] => do let a ← nat32 a; let b ← nat32 b; pure ("OK " ++ hex32 (mod_n_sub a b))
  | ["n_mul", a, b] => do let a ← nat32 a; let b ← nat32 b; pure (showOut ((mod_n_mul a b).map hex32))
  | ["n_pow", a, e] => do let a ← nat32 a; let e ← nat32 e; pure (showOut ((mod_n_pow a e).map hex32))
  | ["n_inv", a] => do let a ← nat32 a; pure (showOut ((mod_n_inv a).map hex32))
  | ["n_from_hash", ha] => do let ha ← bytesOfHex ha; pure (showOut ((mod_n_from_hash ha).map hex32))
  | "s9fp" :: op :: a :: rest => do
    let a ← nat32 a
    let b ← match rest with | [] => some 0 | b :: _ => nat32 b
    let r : Option Nat := match op with
      | "mul" => some (fp_mul a b) | "add" => some (fp_add a b) | "sub" => some (fp_sub a b) | "neg" => some (fp_neg a)
      | "dbl" => some (fp_double a) | "tri" => some (fp_triple a) | "div2" => some (fp_div2 a) | "sqr" => some (fp_sqr a)
      | "inv" => some (fp_inv a) | "pow" => some (fp_pow a b) | "to_mont" => some (fp_to_mont a)
      | "from_mont" => some (fp_from_mont a)
      | _ => none
    pure (match r with | some r => "OK " ++ hex32 r | none => "BADOP")
  | "s9fp2" :: op :: a :: rest => do
    let a ← pFp2 a
    let b ← match rest with | [] => some Fp2.zero | b :: _ => pFp2 b
    pure (showOut ((fp2Op op a b).map raw2))
  | "s9fp4" :: op :: a :: rest => do
    let a ← pFp4 a
    let b ← match rest with | [] => some Fp4.zero | b :: _ => pFp4 b
    pure (showOut ((fp4Op op a b).map raw4))
  | "s9fp12" :: op :: a :: rest => do
    let a ← pFp12 a
    let r ← fp12Op op a rest.head?
    pure (showOut (r.map raw12))
  | ["s9fp12_bytes", a] => do let a ← pFp12 a; pure ("OK " ++ hexB a.to_bytes_be)
  | "g1" :: op :: args => if isG1Op op then g1Op false op args else some "BADOP"
  | "g1_raw" :: op :: args => if isG1Op op then g1Op true op args else some "BADOP"
  | "g2" :: op :: args => if isG2Op op then g2Op false op args else some "BADOP"
  | "g2_raw" :: op :: args => if isG2Op op then g2Op true op args else some "BADOP"
  | "g2eq" :: p :: q :: rest => do
    let p ← pG2 p; let q ← pG2 q
    let q := if rest.head? = some "negate" then q.point_neg else q
    pure s!"OK {p.point_equals q}"
  | ["booth", k, ws, i] => do
    let k ← nat32 k; let ws ← ws.toNat?; let i ← i.toNat?
    if ws ≥ 2 ^ 64 ∨ i ≥ 2 ^ 64 then none
    pure (showOut ((sm9_u256_get_booth k ws i).map fun (b : Int) => toString b))
  | ["pairing", q, p] => do let q ← pG2 q; let p ← pG1 p; pure ("OK " ++ hexB (sm9_u256_pairing q p).to_bytes_be)
  | ["pairing_raw", q, p] => do let q ← pG2 q; let p ← pG1 p; pure ("OK " ++ raw12 (sm9_u256_pairing q p))
  | ["s9_hash1", id, hid] => do
    let id ← bytesOfHex id; let hid ← natOfHex hid
    if hid ≥ 256 then none
    pure (showOut ((sm9_u256_hash1 id hid.toUInt8).map hex32))
  | ["s9_hash2", d, w] => do
    let d ← bytesOfHex d; let w ← bytesOfHex w
    pure (showOut ((sm9_u256_hash2 d w).map hex32))
  | ["s9_kdf", z, klen] => do let z ← bytesOfHex z; let k ← klen.toNat?; pure ("OK " ++ hexB (kdf z k))
  | ["s9_mac", k2, z] => do let k2 ← bytesOfHex k2; let z ← bytesOfHex z; pure (showOut ((sm9_mac k2 z).map hexB))
  | ["s9_extract", what, k, id] => do
    let k ← nat32 k; let id ← bytesOfHex id
    pure (match what with
      | "sign" => showAs "None" ((orNone ((signMaster k).extract_key id)).map fun key => hexB key.ds.to_bytes_be)
      | "enc" => showAs "None" ((encMaster k).bind fun m => (orNone (m.extract_key id)).map fun key => g2aff key.de)
      | _ => showAs "None" ((encMaster k).bind fun m => (orNone (m.extract_exch_key id)).map fun key => g2aff key.de))
  | ["s9_extract_none", what, id] => do
    let id ← bytesOfHex id
    let hid := if what = "sign" then Gen.SM9.HID_SIGN else if what = "enc" then Gen.SM9.HID_ENC else Gen.SM9.HID_EXCH
    pure (match sm9_u256_hash1 id hid with
      | .ok h1 =>
        let k := mod_n_sub Gen.SM9.N h1
        let r : Outcome String := match what with
          | "sign" => (orNone ((signMaster k).extract_key id)).map fun _ => "extracted"
          | "enc" => (encMaster k).bind fun m => (orNone (m.extract_key id)).map fun _ => "extracted"
          | _ => (encMaster k).bind fun m => (orNone (m.extract_exch_key id)).map fun _ => "extracted"
        showAs "None" r
      | .err e => "ERR " ++ e
      | .panic => "PANIC")
  | ["s9_bilin", a, b] => do
    let a ← nat32 a; let b ← nat32 b
    pure (match Point.g_mul 1, Point.g_mul b, mod_n_mul (mod_n_add a 0) (mod_n_add b 0) with
      | .ok p1, .ok pb, .ok ab =>
        let p2 := TwistPoint.g_mul 1
        let g := sm9_u256_pairing p2 p1
        let lhs := sm9_u256_pairing (TwistPoint.g_mul a) pb
        (match g.pow ab, g.pow Gen.SM9.N_MINUS_ONE with
         | .ok rhs, .ok gn1 =>
           let gn := gn1.fp_mul g
           s!"OK bilinear={decide (lhs = rhs)} order={decide (gn = Fp12.one)} nondegenerate={decide (g ≠ Fp12.one)}"
         | _, _ => "PANIC")
      | _, _, _ => "PANIC")
  | ["s9_sign", ks, id, msg, cands] => do
    let ks ← nat32 ks; let id ← bytesOfHex id; let msg ← bytesOfHex msg; let cands ← parseCands cands
    pure (match orNone ((signMaster ks).extract_key id) with
      | .err _ => "ERR None"
      | .panic => "PANIC"
      | .ok key => showAs "Sign" ((key.sign msg cands).map fun r =>
          hex32 r.val.1 ++ " " ++ hexB r.val.2.to_bytes_be ++ " " ++ logStr r.used r.rest))
  | ["s9_verify", ks, id, msg, h, s] => do
    let ks ← nat32 ks; let id ← bytesOfHex id; let msg ← bytesOfHex msg; let h ← nat32 h; let s ← bytesOfHex s
    pure (showAs "Verify" ((Point.from_bytes s).bind fun s => ((signMaster ks).verify_sign id msg h s).map fun _ => ""))
  | ["s9_verify_raw", ks, id, msg, h, s] => do
    let ks ← nat32 ks; let id ← bytesOfHex id; let msg ← bytesOfHex msg; let h ← nat32 h; let s ← pG1 s
    pure (showAs "Verify" (((signMaster ks).verify_sign id msg h s).map fun _ => ""))
  | "s9_sv" :: ks :: id :: msg :: cands :: rest => do
    let ks ← nat32 ks; let id ← bytesOfHex id; let msg ← bytesOfHex msg; let cands ← parseCands cands
    let tam := match rest with | [] => none | kind :: r => some (kind, r.head?)
    pure (svOp ks id msg cands tam)
  | ["s9_enc", ke, id, msg, cands] => do
    let ke ← keArg ke; let id ← bytesOfHex id; let msg ← bytesOfHex msg; let cands ← parseCands cands
    pure (showAs "Encrypt" ((encMasterA ke).bind fun m => (m.encrypt id msg cands).map fun r =>
      hexB r.val ++ " " ++ logStr r.used r.rest))
  | ["s9_dec", ke, id, id2, ct] => do
    let ke ← nat32 ke; let id ← bytesOfHex id; let id2 ← bytesOfHex id2; let ct ← bytesOfHex ct
    pure (match (encMaster ke).bind fun m => orNone (m.extract_key id) with
      | .err _ => "ERR None"
      | .panic => "PANIC"
      | .ok key => showAs "Decrypt" ((key.decrypt id2 ct).map hexB))
  | "s9_tamper" :: ke :: id :: msg :: cands :: kind :: rest => do
    let ke ← keArg ke; let id ← bytesOfHex id; let msg ← bytesOfHex msg; let cands ← parseCands cands
    pure (tamperOp ke id msg cands kind rest.head?)
  | ["s9_exch", ke, ida, idb, klen, ra, rb, tam] => do
    let ke ← keArg ke; let ida ← bytesOfHex ida; let idb ← bytesOfHex idb; let klen ← klen.toNat?
    let cands ← parseCands (ra ++ "," ++ rb)
    pure (exchOp ke ida idb klen cands (tam.splitOn ","))
  | ["s9_keygen", what, cands] => do
    let cands ← parseCands cands
    -- `signfn` / `encfn`: the free functions `generate_*_master_key` (the same two statements as the associated functions)
    pure (if what = "sign" ∨ what = "signfn" then
        showAs "Keygen" ((sign_master_key_generate cands).map fun r =>
          hex32 r.val.ks ++ " " ++ g2aff r.val.ppubs ++ " " ++ logStr r.used r.rest)
      else
        showAs "Keygen" ((enc_master_key_generate cands).map fun r =>
          hex32 r.val.ke ++ " " ++ g1aff r.val.ppube ++ " " ++ logStr r.used r.rest))
  | _ => none

def knownOps : List String :=
  ["n_add", "n_sub", "n_mul", "n_pow", "n_inv", "n_from_hash", "s9fp", "s9fp2", "s9fp4", "s9fp12", "s9fp12_bytes",
   "g1", "g1_raw", "g2", "g2_raw", "g2eq", "booth", "pairing", "pairing_raw", "s9_hash1", "s9_hash2", "s9_kdf",
   "s9_mac", "s9_extract", "s9_extract_none", "s9_bilin", "s9_sign", "s9_verify", "s9_verify_raw", "s9_sv", "s9_enc", "s9_dec", "s9_tamper",
   "s9_exch", "s9_keygen"]

def implStep (toks : List String) : Option String :=
  match toks with
  | [] => none
  | op :: _ =>
    if knownOps.contains op then
      match run toks with
      | some s => some s
      | none => some "PANIC"      -- the harness panics on arguments it cannot parse (`unwrap`, `assert!`, indexing)
    else none

end GmVerif.Drv.SM9Impl
