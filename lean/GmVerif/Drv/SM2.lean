/- driver ops for SM2: `impl` runs the models of the code, `spec` the oracle (GB/T 32918 textbook arithmetic) -/
import GmVerif.Drv.Util
import GmVerif.Impl.SM2.Key
import GmVerif.Impl.SM2.Docs
import GmVerif.Spec.SM2
namespace GmVerif.Drv.SM2
open GmVerif GmVerif.Drv

def hex32 (x : Nat) : String := hexOfBytes (natBE 32 x)
def nat32 (s : String) : Option Nat :=
  match bytesOfHex s with
  | some b => if b.length = 32 then some (beNat b) else none
  | none => none

open Impl.Limb in
def u256 (s : String) : Option U256 := (nat32 s).map U256.ofNat
open Impl.Limb in
def hexU (a : U256) : String := hexOfBytes (u256_to_be_bytes a)

/-- raw Jacobian "x:y:z" -/
def parsePt (s : String) : Option Impl.SM2.Point :=
  match s.splitOn ":" with
  | [x, y, z] => match nat32 x, nat32 y, nat32 z with
    | some x, some y, some z => some ⟨x, y, z⟩
    | _, _, _ => none
  | _ => none
def showPt (p : Impl.SM2.Point) : String := hex32 p.x ++ ":" ++ hex32 p.y ++ ":" ++ hex32 p.z
def showAff (p : Impl.SM2.Point) : String :=
  if p.is_zero then "inf" else
    let a := p.to_affine_point
    hex32 (Impl.SM2.fp_from_mont a.x) ++ "," ++ hex32 (Impl.SM2.fp_from_mont a.y)

def parseCands (s : String) : Option (List (List UInt8)) :=
  if s = "-" ∨ s = "none" then some [] else
    (s.splitOn ",").foldr (fun c acc => match bytesOfHex c, acc with
      | some b, some l => if b.length = 32 then some (b :: l) else none
      | _, _ => none) (some [])

def parseId (s : String) : Option (List UInt8) :=
  if s = "default" then some Impl.SM2.DEFAULT_ID else bytesOfHex s

def modelOf (s : String) : Impl.SM2.Model := if s = "c1c2c3" then .c1c2c3 else .c1c3c2
def orderOf (s : String) : Spec.SM2.Order := if s = "c1c2c3" then .c1c2c3 else .c1c3c2

def showRand (r : Impl.SM2.Rand (List UInt8)) : String :=
  hexB r.val ++ " used=" ++ (if r.used.isEmpty then "-" else String.intercalate "," (r.used.map hex32))
    ++ " left=" ++ toString r.rest.length

def bind2 {α β} (o : Outcome α) (f : α → Outcome β) : Outcome β := o.bind f

/-- alter a ciphertext as the `sm2_tamper` op describes -/
def tamper (ct : List UInt8) (c1len : Nat) (kind arg : String) : Option (List UInt8) :=
  match kind with
  | "none" => some ct
  | "flip" => arg.toNat?.map fun b => ct.mapIdx fun i x => if i = b / 8 then x ^^^ ((0x80 : UInt8) >>> (b % 8).toUInt8) else x
  | "trunc" => arg.toNat?.map fun l => ct.take l
  | "prefix" => arg.toNat?.map fun v => (match ct with | [] => [] | _ :: r => v.toUInt8 :: r)
  | "c1" => (bytesOfHex arg).map fun n => n ++ ct.drop c1len
  | "xor" =>
    match arg.splitOn ":" with
    | [ps, mk] => do
      let mk ← (bytesOfHex mk).bind List.head?
      let idx ← (ps.splitOn ",").mapM String.toNat?
      if idx.any (· ≥ ct.length) then none else pure (ct.mapIdx fun i x => if idx.contains i then x ^^^ mk else x)
    | _ => none
  | _ => none

/-- `hex::decode` of an ASCII string given as bytes: even length, [0-9a-fA-F] -/
def asciiHexDecode (b : List UInt8) : Option (List UInt8) :=
  bytesOfHexAux (b.map fun c => Char.ofNat c.toNat) []

def implStep (toks : List String) : Option String :=
  match toks with
  | ["u256_add", a, b] => do
    let a ← u256 a; let b ← u256 b
    let (r, c) := Impl.Limb.u256_add a b
    pure s!"OK {hexU r} {if c then 1 else 0}"
  | ["u256_sub", a, b] => do
    let a ← u256 a; let b ← u256 b
    let (r, c) := Impl.Limb.u256_sub a b
    pure s!"OK {hexU r} {if c then 1 else 0}"
  | ["u256_mul", a, b] => do
    let a ← u256 a; let b ← u256 b
    let r := Impl.Limb.u256_mul a b
    pure s!"OK {hexU r.hi}{hexU r.lo}"
  | ["u256_cmp", a, b] => do
    let a ← u256 a; let b ← u256 b
    pure s!"OK {Impl.Limb.u256_cmp a b}"
  | ["s9u256", "add", a, b] => do
    let a ← u256 a; let b ← u256 b
    let (r, c) := Impl.Limb.u256_add a b
    pure s!"OK {hexU r} {if c then 1 else 0}"
  | ["s9u256", "sub", a, b] => do
    let a ← u256 a; let b ← u256 b
    let (r, c) := Impl.Limb.u256_sub a b
    pure s!"OK {hexU r} {if c then 1 else 0}"
  | ["s9u256", "mul", a, b] => do
    let a ← u256 a; let b ← u256 b
    let r := Impl.Limb.u256_mul a b
    pure s!"OK {hexU r.hi}{hexU r.lo}"
  | ["s9u256", "cmp", a, b] => do
    let a ← u256 a; let b ← u256 b
    pure s!"OK {Impl.Limb.u256_cmp a b}"
  -- field ops run at the limb level (the Nat-exact layer is proved equal in Proofs.Limb)
  | ["fp_mont_mul", a, b] => do let a ← u256 a; let b ← u256 b; pure ("OK " ++ hexU (Impl.SM2.L.fp_mul a b))
  | ["fp_add", a, b] => do let a ← u256 a; let b ← u256 b; pure ("OK " ++ hexU (Impl.SM2.L.fp_add a b))
  | ["fp_sub", a, b] => do let a ← u256 a; let b ← u256 b; pure ("OK " ++ hexU (Impl.SM2.L.fp_sub a b))
  | ["fp_neg", a] => do let a ← u256 a; pure ("OK " ++ hexU (Impl.SM2.L.fp_neg a))
  | ["fp_double", a] => do let a ← u256 a; pure ("OK " ++ hexU (Impl.SM2.L.fp_add a a))
  | ["fp_triple", a] => do let a ← u256 a; pure ("OK " ++ hexU (Impl.SM2.L.fp_add a (Impl.SM2.L.fp_add a a)))
  | ["fp_div2", a] => do let a ← u256 a; pure ("OK " ++ hexU (Impl.SM2.L.fp_div2 a))
  | ["fp_sqr", a] => do let a ← u256 a; pure ("OK " ++ hexU (Impl.SM2.L.fp_mul a a))
  | ["fp_inv", a] => do let a ← nat32 a; pure ("OK " ++ hex32 (Impl.SM2.fp_inv a))
  | ["fp_pow", a, e] => do let a ← u256 a; let e ← u256 e; pure ("OK " ++ hexU (Impl.SM2.L.fp_pow a e))
  | ["fp_sqrt", a] => do
    let a ← nat32 a
    pure (match Impl.SM2.fp_sqrt a with | some r => "OK " ++ hex32 r | none => "ERR FieldSqrtError")
  | ["fp_to_mont", a] => do let a ← nat32 a; pure ("OK " ++ hex32 (Impl.SM2.fp_to_mont a))
  | ["fp_from_mont", a] => do let a ← nat32 a; pure ("OK " ++ hex32 (Impl.SM2.fp_from_mont a))
  | ["fn_add", a, b] => do let a ← u256 a; let b ← u256 b; pure ("OK " ++ hexU (Impl.SM2.L.fn_add a b))
  | ["fn_sub", a, b] => do let a ← u256 a; let b ← u256 b; pure ("OK " ++ hexU (Impl.SM2.L.fn_sub a b))
  | ["fn_mul", a, b] => do let a ← u256 a; let b ← u256 b; pure ("OK " ++ hexU (Impl.SM2.L.fn_mul a b))
  | ["fn_pow", a, e] => do let a ← u256 a; let e ← u256 e; pure ("OK " ++ hexU (Impl.SM2.L.fn_pow a e))
  | ["fn_inv", a] => do let a ← nat32 a; pure ("OK " ++ hex32 (Impl.SM2.fn_inv a))
  | ["pt_add", p, q] => do let p ← parsePt p; let q ← parsePt q; pure ("OK " ++ showAff (p.point_add q))
  | ["pt_dbl", p] => do let p ← parsePt p; pure ("OK " ++ showAff p.point_dbl)
  | ["pt_neg", p] => do let p ← parsePt p; pure ("OK " ++ showAff p.neg)
  | ["pt_add_raw", p, q] => do let p ← parsePt p; let q ← parsePt q; pure ("OK " ++ showPt (p.point_add q))
  | ["pt_dbl_raw", p] => do let p ← parsePt p; pure ("OK " ++ showPt p.point_dbl)
  | ["pt_neg_raw", p] => do let p ← parsePt p; pure ("OK " ++ showPt p.neg)
  | ["pt_valid", p] => do let p ← parsePt p; pure s!"OK {p.is_valid} {p.is_valid_affine_point}"
  | ["pt_affine", p] => do let p ← parsePt p; pure ("OK " ++ showPt p.to_affine_point)
  | ["pt_mul", p, k] => do let p ← parsePt p; let k ← nat32 k; pure ("OK " ++ showAff (p.scalar_mul k))
  | ["g_mul", k] => do let k ← nat32 k; pure ("OK " ++ showAff (Impl.SM2.g_mul k))
  | ["pt_mul_raw", p, k] => do let p ← parsePt p; let k ← nat32 k; pure ("OK " ++ showPt (p.scalar_mul k))
  | ["g_mul_raw", k] => do let k ← nat32 k; pure ("OK " ++ showPt (Impl.SM2.g_mul k))
  | ["pt_bytes", p, c] => do let p ← parsePt p; pure ("OK " ++ hexB (p.to_byte_be (c == "1")))
  | ["pt_from", b] => do let b ← bytesOfHex b; pure (showOut ((Impl.SM2.Point.from_byte b).map showAff))
  | ["sk_new", b] => do
    let b ← bytesOfHex b
    pure (showOut ((Impl.SM2.sk_new b).map fun (d, p) => hexB (natBE 32 d) ++ " " ++ hexB (p.to_byte_be false)))
  | ["pk_new", b] => do
    let b ← bytesOfHex b
    pure (showOut ((Impl.SM2.pk_new b).map fun p => hexB (p.to_byte_be false) ++ " " ++ hexB (p.to_byte_be true)))
  | ["sm2_kdf", z, klen] => do let z ← bytesOfHex z; let k ← klen.toNat?; pure ("OK " ++ hexB (Impl.SM2.kdf z k))
  | ["sm2_za", id, pk] => do
    let id ← parseId id; let pk ← bytesOfHex pk
    pure (showOut (bind2 (Impl.SM2.pk_new pk) fun p => (Impl.SM2.compute_za id p).map hexB))
  | ["sm2_sign", d, id, msg, cands] => do
    let d ← bytesOfHex d; let id ← parseId id; let msg ← bytesOfHex msg; let cands ← parseCands cands
    pure (showOut (bind2 (Impl.SM2.sk_new d) fun (d, p) => (Impl.SM2.sign d p id msg cands).map showRand))
  | ["sm2_sign_raw", d, dg, cands] => do
    let d ← bytesOfHex d; let dg ← bytesOfHex dg; let cands ← parseCands cands
    pure (showOut (bind2 (Impl.SM2.sk_new d) fun (d, _) => (Impl.SM2.sign_raw dg d cands).map showRand))
  | ["sm2_verify", pk, id, msg, sig] => do
    let pk ← bytesOfHex pk; let id ← parseId id; let msg ← bytesOfHex msg; let sig ← bytesOfHex sig
    pure (showOut (bind2 (Impl.SM2.pk_new pk) fun p => (Impl.SM2.verify p id msg sig).map fun _ => ""))
  | ["sm2_verify_raw", pk, dg, sig] => do
    let pk ← bytesOfHex pk; let dg ← bytesOfHex dg; let sig ← bytesOfHex sig
    pure (showOut (bind2 (Impl.SM2.pk_new pk) fun p => (Impl.SM2.verify_raw dg p sig).map fun _ => ""))
  -- the public key is a raw `Point` object (fields are public in the crate): limbs non-canonical (≥ p) are outside the model
  | ["sm2_verify_raw_p", pt, dg, sig] => do
    let p ← parsePt pt; let dg ← bytesOfHex dg; let sig ← bytesOfHex sig
    pure (showOut ((Impl.SM2.verify_raw dg p sig).map fun _ => ""))
  | ["sm2_verify_p", pt, id, msg, sig] => do
    let p ← parsePt pt; let id ← parseId id; let msg ← bytesOfHex msg; let sig ← bytesOfHex sig
    pure (showOut ((Impl.SM2.verify p id msg sig).map fun _ => ""))
  | ["sm2_enc", pk, msg, c, order, cands] => do
    let pk ← bytesOfHex pk; let msg ← bytesOfHex msg; let cands ← parseCands cands
    pure (showOut (bind2 (Impl.SM2.pk_new pk) fun p => (Impl.SM2.encrypt p msg (c == "1") (modelOf order) cands).map showRand))
  | ["sm2_dec", d, ct, c, order] => do
    let d ← bytesOfHex d; let ct ← bytesOfHex ct
    pure (showOut (bind2 (Impl.SM2.sk_new d) fun (d, _) => (Impl.SM2.decrypt d ct (c == "1") (modelOf order)).map hexB))
  | ["sm2_enc_asn1", pk, msg, _c, _order, cands] => do
    let pk ← bytesOfHex pk; let msg ← bytesOfHex msg; let cands ← parseCands cands
    pure (showOut (bind2 (Impl.SM2.pk_new pk) fun p => (Impl.SM2.encrypt_asn1 p msg cands).map showRand))
  | ["sm2_dec_asn1", d, der, _c, _order] => do
    let d ← bytesOfHex d; let der ← bytesOfHex der
    pure (showOut (bind2 (Impl.SM2.sk_new d) fun (d, _) => (Impl.SM2.decrypt_asn1 d der).map hexB))
  | ["sm2_kex", dA, dB, idA, idB, klen, rA, rB, tam] => do
    let dA ← bytesOfHex dA; let dB ← bytesOfHex dB; let idA ← parseId idA; let idB ← parseId idB
    let klen ← klen.toNat?; let rA ← bytesOfHex rA; let rB ← bytesOfHex rB
    pure (showOut (bind2 (Impl.SM2.sk_new dA) fun (dA, pA) => bind2 (Impl.SM2.sk_new dB) fun (dB, pB) =>
      (Impl.SM2.kex dA pA dB pB idA idB klen [rA, rB] (tam.splitOn ",")).map fun o =>
        String.intercalate " " [hexB o.ra, hexB o.rb, hexB o.sb, hexB o.sa, hexB o.ka, hexB o.kb]))
  | ["sm2_tamper", d, msg, c, order, k, kind, arg] => do
    let d ← bytesOfHex d; let msg ← bytesOfHex msg; let cands ← parseCands k
    let comp := c == "1"
    pure (match Impl.SM2.sk_new d with
      | .ok (d, p) =>
        (match Impl.SM2.encrypt p msg comp (modelOf order) cands with
         | .ok r =>
           (match tamper r.val (if comp then 33 else 65) kind arg with
            | some ct => showOut ((Impl.SM2.decrypt d ct comp (modelOf order)).map hexB)
            | none => "BADOP")
         | .err e => "ERR enc:" ++ e
         | .panic => "PANIC")
      | .err e => "ERR " ++ e
      | .panic => "PANIC")
  | ["pk_hex", h] => do
    let h ← bytesOfHex h
    pure (match asciiHexDecode h with
      | none => "ERR HexOrKey"
      | some b => (match Impl.SM2.pk_new b with
        | .ok p => "OK " ++ hexB (p.to_byte_be false) ++ " " ++ hexB (p.to_byte_be true)
        | .err _ => "ERR HexOrKey"
        | .panic => "PANIC"))
  | ["sk_hex", h] => do
    let h ← bytesOfHex h
    pure (match asciiHexDecode h with
      | none => "ERR HexOrKey"
      | some b => (match Impl.SM2.sk_new b with
        | .ok (d, p) => "OK " ++ hexB (natBE 32 d) ++ " " ++ hexB (p.to_byte_be false)
        | .err _ => "ERR HexOrKey"
        | .panic => "PANIC"))
  | ["sm2_sv", d, id, msg, cands] => do
    let d ← bytesOfHex d; let id ← parseId id; let msg ← bytesOfHex msg; let cands ← parseCands cands
    pure (showOut (bind2 (Impl.SM2.sk_new d) fun (d, p) => bind2 (Impl.SM2.sign d p id msg cands) fun r =>
      (Impl.SM2.verify p id msg r.val).map fun _ => "verified"))
  | ["sm2_ed", d, msg, c, order, cands] => do
    let d ← bytesOfHex d; let msg ← bytesOfHex msg; let cands ← parseCands cands
    pure (showOut (bind2 (Impl.SM2.sk_new d) fun (d, p) => bind2 (Impl.SM2.encrypt p msg (c == "1") (modelOf order) cands) fun r =>
      (Impl.SM2.decrypt d r.val (c == "1") (modelOf order)).map hexB))
  | ["sm2_ed_asn1", d, msg, cands] => do
    let d ← bytesOfHex d; let msg ← bytesOfHex msg; let cands ← parseCands cands
    pure (showOut (bind2 (Impl.SM2.sk_new d) fun (d, p) => bind2 (Impl.SM2.encrypt_asn1 p msg cands) fun r =>
      (Impl.SM2.decrypt_asn1 d r.val).map hexB))
  | ["sm2_spki_enc", pk] => do
    let pk ← bytesOfHex pk
    pure (showOut ((Impl.SM2.pk_new pk).map fun p => hexB (Impl.SM2.spki_encode p)))
  | ["sm2_spki_dec", der] => do
    let der ← bytesOfHex der
    pure (showOut ((Impl.SM2.spki_decode der).map fun p => hexB (p.to_byte_be false)))
  | ["sm2_pkcs8_enc", d] => do
    let d ← bytesOfHex d
    pure (showOut ((Impl.SM2.sk_new d).map fun (d, p) => hexB (Impl.SM2.pkcs8_encode d p)))
  | ["sm2_pkcs8_dec", der] => do
    let der ← bytesOfHex der
    pure (showOut ((Impl.SM2.pkcs8_decode der).map fun (d, p) => hexB (natBE 32 d) ++ " " ++ hexB (p.to_byte_be false)))
  | ["sm2_spki_pem_rt", pk, _le] => do
    let pk ← bytesOfHex pk
    pure (showOut (bind2 (Impl.SM2.pk_new pk) fun p => (Impl.SM2.spki_decode (Impl.SM2.spki_encode p)).map fun q => hexB (q.to_byte_be false)))
  | ["sm2_pkcs8_pem_rt", d, _le] => do
    let d ← bytesOfHex d
    pure (showOut (bind2 (Impl.SM2.sk_new d) fun (d, p) => (Impl.SM2.pkcs8_decode (Impl.SM2.pkcs8_encode d p)).map fun (d, q) =>
      hexB (natBE 32 d) ++ " " ++ hexB (q.to_byte_be false)))
  | ["sm2_keygen", cands] => do
    let cands ← parseCands cands
    pure (match Impl.SM2.random_u256 cands with
      | none => "ERR rng-exhausted"
      | some (d, rest) => showOut ((Impl.SM2.public_from_private d).map fun p =>
          hexB (natBE 32 d) ++ " " ++ hexB (p.to_byte_be false) ++ " used=" ++ hex32 d ++ " left=" ++ toString rest.length))
  | _ => none

/-! ### oracle -/
open Spec.SM2 Spec.EC in
def showSpecPt : Pt → String
  | none => "inf"
  | some (x, y) => hex32 x ++ "," ++ hex32 y

/-- mathematical value of a raw Jacobian Montgomery point, if it is a valid representation of a curve point -/
def specOfJac (p : Impl.SM2.Point) : Option Spec.EC.Pt :=
  let P := Spec.SM2.p
  if p.x ≥ P ∨ p.y ≥ P ∨ p.z ≥ P then none else
  let Rinv := Spec.EC.invMod (2 ^ 256 % P) P
  let x := p.x * Rinv % P; let y := p.y * Rinv % P; let z := p.z * Rinv % P
  if z = 0 then some none else
    let zi := Spec.EC.invMod z P
    let ax := x * zi % P * zi % P
    let ay := y * zi % P * zi % P * zi % P
    if Spec.EC.onCurve Spec.SM2.curve (some (ax, ay)) then some (some (ax, ay)) else none

def inRange (k : Nat) : Bool := 1 ≤ k && k < Spec.SM2.n

/-- the standard's signing loop over a candidate list: out-of-range candidates and candidates for which the
standard says "return to A3" are skipped -/
def specSignLoop (d e : Nat) : List (List UInt8) → List Nat → Option ((Nat × Nat) × List Nat × Nat)
  | [], _ => none
  | c :: cs, used =>
    let k := beNat c
    if ¬ inRange k then specSignLoop d e cs used
    else match Spec.SM2.signWith d e k with
      | some rs => some (rs, used ++ [k], cs.length)
      | none => specSignLoop d e cs (used ++ [k])

def specEncLoop (P : Spec.EC.Pt) (msg : List UInt8) (c : Bool) (o : Spec.SM2.Order) :
    List (List UInt8) → List Nat → Option (List UInt8 × Nat × List Nat × Nat)
  | [], _ => none
  | cd :: cs, used =>
    let k := beNat cd
    if ¬ inRange k then specEncLoop P msg c o cs used
    else match Spec.SM2.encryptWith P msg k c o with
      | some ct => some (ct, k, used ++ [k], cs.length)
      | none => specEncLoop P msg c o cs (used ++ [k])

def showUsed (used : List Nat) (left : Nat) : String :=
  " used=" ++ (if used.isEmpty then "-" else String.intercalate "," (used.map hex32)) ++ " left=" ++ toString left

def specSk (b : List UInt8) : Option Nat :=
  if b.length ≠ 32 then none else
    let d := beNat b
    if 1 ≤ d ∧ d ≤ Spec.SM2.n - 2 then some d else none

def specStep (toks : List String) : Option String :=
  let P := Spec.SM2.p
  let Nn := Spec.SM2.n
  let R := 2 ^ 256
  let canon (x : Nat) (m : Nat) : Bool := x < m
  match toks with
  | ["u256_add", a, b] => do
    let a ← nat32 a; let b ← nat32 b
    pure s!"OK {hex32 ((a + b) % R)} {(a + b) / R}"
  | ["u256_sub", a, b] => do
    let a ← nat32 a; let b ← nat32 b
    pure s!"OK {hex32 ((a + R - b) % R)} {if a < b then 1 else 0}"
  | ["u256_mul", a, b] => do
    let a ← nat32 a; let b ← nat32 b
    pure ("OK " ++ hexOfBytes (natBE 64 (a * b)))
  | ["u256_cmp", a, b] => do
    let a ← nat32 a; let b ← nat32 b
    pure s!"OK {if a > b then (1 : Int) else if a < b then -1 else 0}"
  | ["s9u256", "add", a, b] => do
    let a ← nat32 a; let b ← nat32 b
    pure s!"OK {hex32 ((a + b) % 2 ^ 256)} {(a + b) / 2 ^ 256}"
  | ["s9u256", "sub", a, b] => do
    let a ← nat32 a; let b ← nat32 b
    pure s!"OK {hex32 ((a + 2 ^ 256 - b) % 2 ^ 256)} {if a < b then 1 else 0}"
  | ["s9u256", "mul", a, b] => do
    let a ← nat32 a; let b ← nat32 b
    pure ("OK " ++ hexOfBytes (natBE 64 (a * b)))
  | ["s9u256", "cmp", a, b] => do
    let a ← nat32 a; let b ← nat32 b
    pure s!"OK {if a > b then (1 : Int) else if a < b then -1 else 0}"
  | ["fp_mont_mul", a, b] => do
    let a ← nat32 a; let b ← nat32 b
    pure (if canon a P && canon b P then "OK " ++ hex32 (a * b % P * Spec.EC.invMod (R % P) P % P) else "ANY")
  | ["fp_add", a, b] => do let a ← nat32 a; let b ← nat32 b; pure (if canon a P && canon b P then "OK " ++ hex32 ((a + b) % P) else "ANY")
  | ["fp_sub", a, b] => do let a ← nat32 a; let b ← nat32 b; pure (if canon a P && canon b P then "OK " ++ hex32 ((a + P - b) % P) else "ANY")
  | ["fp_neg", a] => do let a ← nat32 a; pure (if canon a P then "OK " ++ hex32 ((P - a) % P) else "ANY")
  | ["fp_double", a] => do let a ← nat32 a; pure (if canon a P then "OK " ++ hex32 (2 * a % P) else "ANY")
  | ["fp_triple", a] => do let a ← nat32 a; pure (if canon a P then "OK " ++ hex32 (3 * a % P) else "ANY")
  | ["fp_div2", a] => do let a ← nat32 a; pure (if canon a P then "OK " ++ hex32 (a * ((P + 1) / 2) % P) else "ANY")
  | ["fp_sqr", a] => do let a ← nat32 a; pure (if canon a P then "OK " ++ hex32 (a * a % P * Spec.EC.invMod (R % P) P % P) else "ANY")
  | ["fp_inv", a] => do
    -- Montgomery domain: inv(aR) = a^-1 R
    let a ← nat32 a
    pure (if canon a P && a ≠ 0 then
      let v := a * Spec.EC.invMod (R % P) P % P
      "OK " ++ hex32 (Spec.EC.invMod v P * (R % P) % P) else "ANY")
  | ["fp_pow", a, e] => do
    let a ← nat32 a; let e ← nat32 e
    pure (if canon a P then
      let v := a * Spec.EC.invMod (R % P) P % P
      "OK " ++ hex32 (Spec.EC.powMod v e P * (R % P) % P) else "ANY")
  | ["fp_sqrt", a] => do
    let a ← nat32 a
    pure (if canon a P then
      let v := a * Spec.EC.invMod (R % P) P % P
      match Spec.SM2.sqrtMod v with
      | some y => "OK " ++ hex32 (y * (R % P) % P)
      | none => "ERR" else "ANY")
  | ["fp_to_mont", a] => do let a ← nat32 a; pure ("OK " ++ hex32 (a % P * (R % P) % P))
  | ["fp_from_mont", a] => do let a ← nat32 a; pure (if canon a P then "OK " ++ hex32 (a * Spec.EC.invMod (R % P) P % P) else "ANY")
  | ["fn_add", a, b] => do let a ← nat32 a; let b ← nat32 b; pure (if canon a Nn && canon b Nn then "OK " ++ hex32 ((a + b) % Nn) else "ANY")
  | ["fn_sub", a, b] => do let a ← nat32 a; let b ← nat32 b; pure (if canon a Nn && canon b Nn then "OK " ++ hex32 ((a + Nn - b) % Nn) else "ANY")
  | ["fn_mul", a, b] => do let a ← nat32 a; let b ← nat32 b; pure (if canon a Nn && canon b Nn then "OK " ++ hex32 (a * b % Nn) else "ANY")
  | ["fn_pow", a, e] => do let a ← nat32 a; let e ← nat32 e; pure (if canon a Nn then "OK " ++ hex32 (Spec.EC.powMod a e Nn) else "ANY")
  | ["fn_inv", a] => do let a ← nat32 a; pure (if canon a Nn && a ≠ 0 then "OK " ++ hex32 (Spec.EC.invMod a Nn) else "ANY")
  | ["pt_add", p, q] => do
    let p ← parsePt p; let q ← parsePt q
    pure (match specOfJac p, specOfJac q with
      | some a, some b => "OK " ++ showSpecPt (Spec.EC.add Spec.SM2.curve a b)
      | _, _ => "ANY")
  | ["pt_dbl", p] => do
    let p ← parsePt p
    pure (match specOfJac p with | some a => "OK " ++ showSpecPt (Spec.EC.add Spec.SM2.curve a a) | none => "ANY")
  | ["pt_neg", p] => do
    let p ← parsePt p
    pure (match specOfJac p with | some a => "OK " ++ showSpecPt (Spec.EC.neg Spec.SM2.curve a) | none => "ANY")
  | ["pt_mul", p, k] => do
    let p ← parsePt p; let k ← nat32 k
    pure (match specOfJac p with | some a => "OK " ++ showSpecPt (Spec.EC.mul Spec.SM2.curve k a) | none => "ANY")
  | ["g_mul", k] => do let k ← nat32 k; pure ("OK " ++ showSpecPt (Spec.EC.mul Spec.SM2.curve k Spec.SM2.G))
  | ["pt_valid", p] => do
    -- is_valid must agree with the curve equation on canonical coordinates
    let p ← parsePt p
    pure (if p.x ≥ P ∨ p.y ≥ P ∨ p.z ≥ P then "ANY" else
      let Ri := Spec.EC.invMod (R % P) P
      let x := p.x * Ri % P; let y := p.y * Ri % P; let z := p.z * Ri % P
      let jac := z = 0 || (y * y % P == (x * x % P * x + Spec.SM2.a * x % P * (Spec.EC.powMod z 4 P) + Spec.SM2.b * Spec.EC.powMod z 6 P) % P)
      let aff := y * y % P == (x * x % P * x + Spec.SM2.a * x + Spec.SM2.b) % P
      s!"OK {jac} {aff}")
  | ["pt_bytes", p, c] => do
    let p ← parsePt p
    pure (match specOfJac p with
      | some (some a) => "OK " ++ hexB (Spec.SM2.encodePoint (c == "1") (some a))
      | _ => "ANY")
  | ["pt_from", b] => do
    let b ← bytesOfHex b
    pure (match Spec.SM2.decodePoint b with | some (x, y) => "OK " ++ showSpecPt (some (x, y)) | none => "ERR")
  | ["pt_add_raw", _, _] => some "ANY"
  | ["pt_dbl_raw", _] => some "ANY"
  | ["pt_neg_raw", _] => some "ANY"
  | ["pt_mul_raw", _, _] => some "ANY"
  | ["g_mul_raw", _] => some "ANY"
  | ["pt_affine", _] => some "ANY"
  | ["sk_new", b] => do
    let b ← bytesOfHex b
    pure (match specSk b with
      | some d => "OK " ++ hexB (natBE 32 d) ++ " " ++ hexB (Spec.SM2.encodePoint false (Spec.EC.mul Spec.SM2.curve d Spec.SM2.G))
      | none => "ERR")
  | ["pk_new", b] => do
    let b ← bytesOfHex b
    pure (match Spec.SM2.decodePoint b with
      | some pt => "OK " ++ hexB (Spec.SM2.encodePoint false (some pt)) ++ " " ++ hexB (Spec.SM2.encodePoint true (some pt))
      | none => "ERR")
  | ["sm2_kdf", z, klen] => do
    let z ← bytesOfHex z; let k ← klen.toNat?
    pure (if k ≥ 1 then "OK " ++ hexB (Spec.SM2.kdf z k) else "ANY")
  | ["sm2_za", id, pk] => do
    let id ← parseId id; let pk ← bytesOfHex pk
    pure (match Spec.SM2.decodePoint pk with
      | some (x, y) => if id.length * 8 > 65535 then "ERR" else "OK " ++ hexB (Spec.SM2.ZA id x y)
      | none => "ERR")
  | ["sm2_sign", d, id, msg, cands] => do
    let d ← bytesOfHex d; let id ← parseId id; let msg ← bytesOfHex msg; let cands ← parseCands cands
    pure (match specSk d with
      | none => "ERR"
      | some d =>
        if id.length * 8 > 65535 then "ERR" else
        match Spec.EC.mul Spec.SM2.curve d Spec.SM2.G with
        | some (xA, yA) =>
          (match specSignLoop d (Spec.SM2.digestE id xA yA msg) cands [] with
          | some ((r, s), used, left) => "OK " ++ hexB (natBE 32 r ++ natBE 32 s) ++ showUsed used left
          | none => "ANY")
        | none => "ERR")
  | ["sm2_sign_raw", d, dg, cands] => do
    let d ← bytesOfHex d; let dg ← bytesOfHex dg; let cands ← parseCands cands
    pure (match specSk d with
      | none => "ERR"
      | some d =>
        if dg.length ≠ 32 then "ERR" else
        match specSignLoop d (beNat dg) cands [] with
        | some ((r, s), used, left) => "OK " ++ hexB (natBE 32 r ++ natBE 32 s) ++ showUsed used left
        | none => "ANY")
  | ["sm2_verify", pk, id, msg, sig] => do
    let pk ← bytesOfHex pk; let id ← parseId id; let msg ← bytesOfHex msg; let sig ← bytesOfHex sig
    pure (match Spec.SM2.decodePoint pk with
      | none => "ERR"
      | some (x, y) =>
        if id.length * 8 > 65535 ∨ sig.length ≠ 64 then "ERR" else
        if Spec.SM2.verify (some (x, y)) (Spec.SM2.digestE id x y msg) (beNat (sig.take 32)) (beNat (sig.drop 32)) then "OK" else "ERR")
  -- raw point object as public key: through the public `verify` a point that is not a (finite) curve point must be refused -> ERR;
  -- non-canonical limbs -> outside the statement
  | ["sm2_verify_raw_p", pt, dg, sig] => do
    let p ← parsePt pt; let dg ← bytesOfHex dg; let sig ← bytesOfHex sig
    pure (if p.x ≥ Spec.SM2.p ∨ p.y ≥ Spec.SM2.p ∨ p.z ≥ Spec.SM2.p then "ANY" else
      match specOfJac p with
      | some (some ptA) =>
        if dg.length ≠ 32 ∨ sig.length ≠ 64 then "ERR" else
        if Spec.SM2.verify (some ptA) (beNat dg) (beNat (sig.take 32)) (beNat (sig.drop 32)) then "OK" else "ERR"
      | _ => "ANY")      -- the digest-level entry does not validate the key (the public `verify` does): outside the statement
  | ["sm2_verify_p", pt, id, msg, sig] => do
    let p ← parsePt pt; let id ← parseId id; let msg ← bytesOfHex msg; let sig ← bytesOfHex sig
    pure (if p.x ≥ Spec.SM2.p ∨ p.y ≥ Spec.SM2.p ∨ p.z ≥ Spec.SM2.p then "ANY" else
      match specOfJac p with
      | some (some (x, y)) =>
        if id.length * 8 > 65535 ∨ sig.length ≠ 64 then "ERR" else
        if Spec.SM2.verify (some (x, y)) (Spec.SM2.digestE id x y msg) (beNat (sig.take 32)) (beNat (sig.drop 32)) then "OK" else "ERR"
      | _ => "ERR")
  | ["sm2_verify_raw", pk, dg, sig] => do
    let pk ← bytesOfHex pk; let dg ← bytesOfHex dg; let sig ← bytesOfHex sig
    pure (match Spec.SM2.decodePoint pk with
      | none => "ERR"
      | some pt =>
        if dg.length ≠ 32 ∨ sig.length ≠ 64 then "ERR" else
        if Spec.SM2.verify (some pt) (beNat dg) (beNat (sig.take 32)) (beNat (sig.drop 32)) then "OK" else "ERR")
  | ["sm2_enc", pk, msg, c, order, cands] => do
    let pk ← bytesOfHex pk; let msg ← bytesOfHex msg; let cands ← parseCands cands
    pure (match Spec.SM2.decodePoint pk with
      | none => "ERR"
      | some pt =>
        if msg.isEmpty then "ERR" else
        match specEncLoop (some pt) msg (c == "1") (orderOf order) cands [] with
        | some (ct, _, used, left) => "OK " ++ hexB ct ++ showUsed used left
        | none => "ANY")
  | ["sm2_dec", d, ct, c, order] => do
    let d ← bytesOfHex d; let ct ← bytesOfHex ct
    pure (match specSk d with
      | none => "ERR"
      | some d => showSpec ((Spec.SM2.decrypt d ct (c == "1") (orderOf order)).map hexB))
  | ["sm2_enc_asn1", pk, msg, _c, _order, cands] => do
    let pk ← bytesOfHex pk; let msg ← bytesOfHex msg; let cands ← parseCands cands
    pure (match Spec.SM2.decodePoint pk with
      | none => "ERR"
      | some pt =>
        if msg.isEmpty then "ERR" else
        match specEncLoop (some pt) msg false .c1c3c2 cands [] with
        | some (ct, _, used, left) =>
          let x := beNat ((ct.drop 1).take 32); let y := beNat ((ct.drop 33).take 32)
          "OK " ++ hexB (Spec.SM2.asn1Ciphertext x y ((ct.drop 65).take 32) (ct.drop 97)) ++ showUsed used left
        | none => "ANY")
  | ["sm2_dec_asn1", d, der, _c, _order] => do
    -- the oracle decodes with the model's DER reader (third-party parsing is modelled, not specified here)
    let d ← bytesOfHex d; let der ← bytesOfHex der
    pure (match specSk d with
      | none => "ERR"
      | some d =>
        match Impl.SM2.parseCiphertext der with
        | none => "ERR"
        | some (xb, yb, h, c) =>
          if xb.length > 32 ∨ yb.length > 32 ∨ h.length ≠ 32 then "ERR" else
          showSpec ((Spec.SM2.decrypt d ([4] ++ natBE 32 (beNat xb) ++ natBE 32 (beNat yb) ++ h ++ c) false .c1c3c2).map hexB))
  | ["sm2_kex", dA, dB, idA, idB, klen, rA, rB, tam] => do
    let dA ← bytesOfHex dA; let dB ← bytesOfHex dB; let idA ← parseId idA; let idB ← parseId idB
    let klen ← klen.toNat?; let rA ← nat32 rA; let rB ← nat32 rB
    pure (match specSk dA, specSk dB with
      | some dA, some dB =>
        if ¬ inRange rA ∨ ¬ inRange rB ∨ klen = 0 then "ANY" else
        if tam ≠ "-" then "ERR" else          -- any message altered in transit must make the run fail
        let PA := Spec.EC.mul Spec.SM2.curve dA Spec.SM2.G
        let PB := Spec.EC.mul Spec.SM2.curve dB Spec.SM2.G
        let RA := Spec.EC.mul Spec.SM2.curve rA Spec.SM2.G
        let RB := Spec.EC.mul Spec.SM2.curve rB Spec.SM2.G
        match PA, PB with
        | some (xa, ya), some (xb, yb) =>
          let za := Spec.SM2.ZA idA xa ya; let zb := Spec.SM2.ZA idB xb yb
          match Spec.SM2.kexCompute dA rA RA RB PB za zb klen RA RB, Spec.SM2.kexCompute dB rB RB RA PA za zb klen RA RB with
          | some a, some b =>
            if a.s1 = b.s1 ∧ a.s2 = b.s2 then
              "OK " ++ String.intercalate " " [hexB (Spec.SM2.encodePoint false RA), hexB (Spec.SM2.encodePoint false RB), hexB b.s1, hexB a.s2, hexB a.key, hexB b.key]
            else "ERR"
          | _, _ => "ERR"
        | _, _ => "ERR"
      | _, _ => "ERR")
  | ["sm2_tamper", d, msg, c, order, k, kind, arg] => do
    let d ← bytesOfHex d; let msg ← bytesOfHex msg; let cands ← parseCands k
    let comp := c == "1"
    pure (match specSk d with
      | none => "ERR"
      | some d =>
        if msg.isEmpty then "ERR" else
        match specEncLoop (Spec.EC.mul Spec.SM2.curve d Spec.SM2.G) msg comp (orderOf order) cands [] with
        | none => "ANY"
        | some (ct, _, _, _) =>
          (match tamper ct (if comp then 33 else 65) kind arg with
           | some ct' => showSpec ((Spec.SM2.decrypt d ct' comp (orderOf order)).map hexB)
           | none => "BADOP"))
  | ["pk_hex", h] => do
    let h ← bytesOfHex h
    pure (match asciiHexDecode h with
      | none => "ERR"
      | some b => (match Spec.SM2.decodePoint b with
        | some pt => "OK " ++ hexB (Spec.SM2.encodePoint false (some pt)) ++ " " ++ hexB (Spec.SM2.encodePoint true (some pt))
        | none => "ERR"))
  | ["sk_hex", h] => do
    let h ← bytesOfHex h
    pure (match asciiHexDecode h with
      | none => "ERR"
      | some b => (match specSk b with
        | some d => "OK " ++ hexB (natBE 32 d) ++ " " ++ hexB (Spec.SM2.encodePoint false (Spec.EC.mul Spec.SM2.curve d Spec.SM2.G))
        | none => "ERR"))
  | ["sm2_sv", d, id, _msg, cands] => do
    -- the library's own verification must accept what it signed (whenever a signature is produced at all)
    let d ← bytesOfHex d; let id ← parseId id; let cands ← parseCands cands
    pure (match specSk d with
      | none => "ERR"
      | some _ => if id.length * 8 > 65535 then "ERR" else if (cands.filter fun c => inRange (beNat c)).isEmpty then "ANY" else "OK verified")
  | ["sm2_ed", d, msg, _c, _order, cands] => do
    let d ← bytesOfHex d; let msg ← bytesOfHex msg; let cands ← parseCands cands
    pure (match specSk d with
      | none => "ERR"
      | some _ => if msg.isEmpty then "ERR" else if (cands.filter fun c => inRange (beNat c)).isEmpty then "ANY" else "OK " ++ hexB msg)
  | ["sm2_ed_asn1", d, msg, cands] => do
    let d ← bytesOfHex d; let msg ← bytesOfHex msg; let cands ← parseCands cands
    pure (match specSk d with
      | none => "ERR"
      | some _ => if msg.isEmpty then "ERR" else if (cands.filter fun c => inRange (beNat c)).isEmpty then "ANY" else "OK " ++ hexB msg)
  | ["sm2_spki_enc", pk] => do
    let pk ← bytesOfHex pk
    pure (match Spec.SM2.decodePoint pk with
      | some pt => "OK " ++ hexB (Impl.SM2.spkiPrefix ++ Spec.SM2.encodePoint false (some pt))
      | none => "ERR")
  | ["sm2_spki_dec", der] => do
    let der ← bytesOfHex der
    pure (if der.length = 91 ∧ der.take 26 = Impl.SM2.spkiPrefix then
        (match Spec.SM2.decodePoint (der.drop 26) with
         | some pt => "OK " ++ hexB (Spec.SM2.encodePoint false (some pt))
         | none => "ERR")
      else "NOPANIC")
  | ["sm2_pkcs8_enc", d] => do
    let d ← bytesOfHex d
    pure (match specSk d with
      | some d => "OK " ++ hexB (Impl.SM2.pkcs8Prefix ++ natBE 32 d ++ Impl.SM2.pkcs8Mid ++ Spec.SM2.encodePoint false (Spec.EC.mul Spec.SM2.curve d Spec.SM2.G))
      | none => "ERR")
  | ["sm2_pkcs8_dec", der] => do
    let der ← bytesOfHex der
    pure (if der.length = 138 ∧ der.take 36 = Impl.SM2.pkcs8Prefix ∧ (der.drop 68).take 5 = Impl.SM2.pkcs8Mid then
        (match specSk ((der.drop 36).take 32), Spec.SM2.decodePoint (der.drop 73) with
         | some d, some _ => "OK " ++ hexB (natBE 32 d) ++ " " ++ hexB (Spec.SM2.encodePoint false (Spec.EC.mul Spec.SM2.curve d Spec.SM2.G))
         | _, _ => "ERR")
      else "NOPANIC")
  | ["sm2_spki_pem_rt", pk, _le] => do
    let pk ← bytesOfHex pk
    pure (match Spec.SM2.decodePoint pk with
      | some pt => "OK " ++ hexB (Spec.SM2.encodePoint false (some pt))
      | none => "ERR")
  | ["sm2_pkcs8_pem_rt", d, _le] => do
    let d ← bytesOfHex d
    pure (match specSk d with
      | some d => "OK " ++ hexB (natBE 32 d) ++ " " ++ hexB (Spec.SM2.encodePoint false (Spec.EC.mul Spec.SM2.curve d Spec.SM2.G))
      | none => "ERR")
  | ["sm2_keygen", cands] => do
    let cands ← parseCands cands
    pure (match cands.filter (fun c => inRange (beNat c)) with
      | [] => "ANY"
      | c :: _ =>
        let d := beNat c
        let idx := (cands.takeWhile (fun c => ¬ inRange (beNat c))).length
        "OK " ++ hexB (natBE 32 d) ++ " " ++ hexB (Spec.SM2.encodePoint false (Spec.EC.mul Spec.SM2.curve d Spec.SM2.G)) ++ showUsed [d] (cands.length - idx - 1))
  | _ => none

end GmVerif.Drv.SM2
