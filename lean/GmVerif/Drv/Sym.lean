/- driver ops for SM3, SM4 (+modes), ZUC, EEA3/EIA3: `impl` runs the model of the code, `spec` the oracle -/
import GmVerif.Drv.Util
import GmVerif.Impl.SM3
import GmVerif.Impl.SM4
import GmVerif.Impl.ZUC
import GmVerif.Impl.EEA
import GmVerif.Spec.SM3
import GmVerif.Spec.SM4
import GmVerif.Spec.Modes
import GmVerif.Spec.ZUC
import GmVerif.Spec.EEA3
namespace GmVerif.Drv.Sym
open GmVerif GmVerif.Drv

def modeOf : String → Option Impl.SM4.Mode
  | "cfb" => some .cfb | "ofb" => some .ofb | "ctr" => some .ctr | "cbc" => some .cbc | _ => none

def sm4Hist (rk : Array UInt32) : List String → List String
  | [] => []
  | op :: rest =>
    let d := (op.take 2).toString
    let r := match bytesOfHex (op.drop 2).toString with
      | none => "BAD"
      | some blk =>
        match (if d = "e:" then Impl.SM4.encrypt rk blk else Impl.SM4.decrypt rk blk) with
        | .ok v => hexB v
        | .err e => "ERR:" ++ e
        | .panic => "PANIC"
    r :: sm4Hist rk rest

def sm4HistSpec (k : List UInt8) : List String → List String
  | [] => []
  | op :: rest =>
    let d := (op.take 2).toString
    let r := match bytesOfHex (op.drop 2).toString with
      | none => "BAD"
      | some blk =>
        if blk.length ≠ 16 then "ERR"
        else hexB (if d = "e:" then Spec.SM4.encBytes k blk else Spec.SM4.decBytes k blk)
    r :: sm4HistSpec k rest

def modeHist (m : Impl.SM4.Mode) (k : List UInt8) : List String → List String
  | [] => []
  | op :: rest =>
    let r := match op.splitOn ":" with
      | [d, iv, data] =>
        (match bytesOfHex iv, bytesOfHex data with
         | some i, some dt =>
           (match (if d = "e" then Impl.SM4.mode_encrypt m k dt i else Impl.SM4.mode_decrypt m k dt i) with
            | .ok v => hexB v
            | .err e => "ERR:" ++ e
            | .panic => "PANIC")
         | _, _ => "BAD")
      | _ => "BAD"
    r :: modeHist m k rest

def specMode (m : Impl.SM4.Mode) (enc : Bool) (k i d : List UInt8) : Option (List UInt8) :=
  if k.length ≠ 16 ∨ i.length ≠ 16 then none else
  let E := Spec.SM4.encBytes k
  let D := Spec.SM4.decBytes k
  match m, enc with
  | .ctr, _ => some (Spec.Modes.ctr E i d)
  | .ofb, _ => some (Spec.Modes.ofb E i d)
  | .cfb, true => some (Spec.Modes.cfbEnc E i d)
  | .cfb, false => some (Spec.Modes.cfbDec E i d)
  | .cbc, true => some (Spec.Modes.cbcEnc E i d)
  | .cbc, false => Spec.Modes.cbcDec D i d

def modeHistSpec (m : Impl.SM4.Mode) (k : List UInt8) : List String → List String
  | [] => []
  | op :: rest =>
    let r := match op.splitOn ":" with
      | [d, iv, data] =>
        (match bytesOfHex iv, bytesOfHex data with
         | some i, some dt => (match specMode m (d = "e") k i dt with | some v => hexB v | none => "ERR")
         | _, _ => "BAD")
      | _ => "BAD"
    r :: modeHistSpec m k rest

/-- split a list according to request sizes -/
def splitBy {α} : List α → List Nat → List (List α)
  | _, [] => []
  | l, n :: ns => l.take n :: splitBy (l.drop n) ns

def implStep (toks : List String) : Option String :=
  match toks with
  | ["sm3", m] => (bytesOfHex m).map fun b => showOut ((Impl.SM3.sm3_hash b).map hexB)
  | "sm3seq" :: ms =>
    let rs := ms.map fun m => match bytesOfHex m with
      | some b => (match Impl.SM3.sm3_hash b with | .ok d => hexB d | .err e => "ERR:" ++ e | .panic => "PANIC")
      | none => "BAD"
    some ("OK " ++ String.intercalate " " rs)
  | ["sm3rep", blk, cnt, tl] =>
    match bytesOfHex blk, cnt.toNat?, bytesOfHex tl with
    | some b, some c, some t => some (showOut ((Impl.SM3.sm3_hash_rep b c t).map hexB))
    | _, _, _ => none
  | ["sm4", dir, key, blk] =>
    match bytesOfHex key, bytesOfHex blk with
    | some k, some b =>
      some (showOut (((Impl.SM4.new k).bind fun rk =>
        if dir = "enc" then Impl.SM4.encrypt rk b else Impl.SM4.decrypt rk b).map hexB))
    | _, _ => none
  | "sm4hist" :: key :: ops =>
    (bytesOfHex key).map fun k =>
      match Impl.SM4.new k with
      | .ok rk => "OK " ++ String.intercalate " " (sm4Hist rk ops)
      | .err e => "ERR " ++ e
      | .panic => "PANIC"
  | ["sm4mode", mode, dir, key, iv, data] =>
    match modeOf mode, bytesOfHex key, bytesOfHex iv, bytesOfHex data with
    | some m, some k, some i, some d =>
      some (showOut ((if dir = "enc" then Impl.SM4.mode_encrypt m k d i else Impl.SM4.mode_decrypt m k d i).map hexB))
    | _, _, _, _ => none
  | "sm4modehist" :: mode :: key :: ops =>
    match modeOf mode, bytesOfHex key with
    | some m, some k =>
      (match Impl.SM4.new k with
       | .ok _ => some ("OK " ++ String.intercalate " " (modeHist m k ops))
       | .err e => some ("ERR " ++ e)
       | .panic => some "PANIC")
    | _, _ => none
  | ["sm4rt", mode, key, iv, data] =>
    match modeOf mode, bytesOfHex key, bytesOfHex iv, bytesOfHex data with
    | some m, some k, some i, some d =>
      some (showOut ((Impl.SM4.mode_encrypt m k d i).bind fun ct =>
        (Impl.SM4.mode_decrypt m k ct i).map fun pt => hexB ct ++ " " ++ hexB pt))
    | _, _, _, _ => none
  | "zuc" :: key :: iv :: ns =>
    match bytesOfHex key, bytesOfHex iv with
    | some k, some i =>
      let reqs := ns.filterMap String.toNat?
      if reqs.length ≠ ns.length then none else
      match Impl.ZUC.new k i with
      | .ok z => some (showOut (.ok (String.intercalate " " ((Impl.ZUC.requests z reqs).map showWords))))
      | .err e => some ("ERR " ++ e)
      | .panic => some "PANIC"
    | _, _ => none
  | [op, key, count, bearer, dir, len, ws] =>
    if op = "eea" ∨ op = "eea2" ∨ op = "eia" then
      match bytesOfHex key, natOfHex count, natOfHex bearer, natOfHex dir, natOfHex len, parseWords ws with
      | some k, some c, some b, some d, some l, some m =>
        let c := UInt32.ofNat c; let b := UInt32.ofNat b; let d := UInt32.ofNat d; let l := UInt32.ofNat l
        if op = "eea" then
          some (showOut (((Impl.EEA.eeaNew k c b d).bind fun z => Impl.EEA.eeaEncrypt z m l).map fun r => showWords r.1))
        else if op = "eea2" then
          some (showOut (((Impl.EEA.eeaNew k c b d).bind fun z => Impl.EEA.eeaEncrypt z m l).bind fun r =>
            ((Impl.EEA.eeaNew k c b d).bind fun z => Impl.EEA.eeaEncrypt z r.1 l).map fun r2 =>
              showWords r.1 ++ " " ++ showWords r2.1))
        else
          some (showOut (((Impl.EEA.eiaNew k c b d).bind fun z => Impl.EEA.eiaGenMac z m l).map fun r => hex8 r.1))
      | _, _, _, _, _, _ => none
    else none
  | _ => none

/-- streaming `Spec.SM3.hash (block^count ++ tail)` (equal to it by `List.foldl_append`) -/
def specSm3Rep (block : List UInt8) (count : Nat) (tail : List UInt8) : List UInt8 :=
  let v := (List.range count).foldl (fun v _ => Spec.SM3.CF v block) Spec.SM3.IV
  let total := 64 * count + tail.length
  let last := tail ++ [0x80] ++ List.replicate ((55 + 64 - total % 64) % 64) 0 ++ natBE 8 (8 * total)
  ((Spec.SM3.blocks last).foldl Spec.SM3.CF v).flatMap be32

/-- the oracle: `OK payload` where the property fixes the result, `ERR` where it demands an error,
`ANY` where the input is outside the property's statement -/
def specStep (toks : List String) : Option String :=
  match toks with
  | ["sm3", m] => (bytesOfHex m).map fun b => "OK " ++ hexB (Spec.SM3.hash b)
  | "sm3seq" :: ms =>
    some ("OK " ++ String.intercalate " " (ms.map fun m => match bytesOfHex m with
      | some b => hexB (Spec.SM3.hash b) | none => "BAD"))
  | ["sm3rep", blk, cnt, tl] =>
    match bytesOfHex blk, cnt.toNat?, bytesOfHex tl with
    | some b, some c, some t => if b.length = 64 then some ("OK " ++ hexB (specSm3Rep b c t)) else some "ANY"
    | _, _, _ => none
  | ["sm4", dir, key, blk] =>
    match bytesOfHex key, bytesOfHex blk with
    | some k, some b =>
      if k.length ≠ 16 ∨ b.length ≠ 16 then some "ERR"
      else some ("OK " ++ hexB (if dir = "enc" then Spec.SM4.encBytes k b else Spec.SM4.decBytes k b))
    | _, _ => none
  | "sm4hist" :: key :: ops =>
    (bytesOfHex key).map fun k =>
      if k.length ≠ 16 then "ERR" else "OK " ++ String.intercalate " " (sm4HistSpec k ops)
  | ["sm4mode", mode, dir, key, iv, data] =>
    match modeOf mode, bytesOfHex key, bytesOfHex iv, bytesOfHex data with
    | some m, some k, some i, some d =>
      if k.length ≠ 16 ∨ i.length ≠ 16 then some "ERR" else
      let E := Spec.SM4.encBytes k
      let D := Spec.SM4.decBytes k
      some (match m, dir with
        | .ctr, _ => "OK " ++ hexB (Spec.Modes.ctr E i d)
        | .ofb, _ => "OK " ++ hexB (Spec.Modes.ofb E i d)
        | .cfb, "enc" => "OK " ++ hexB (Spec.Modes.cfbEnc E i d)
        | .cfb, _ => "OK " ++ hexB (Spec.Modes.cfbDec E i d)
        | .cbc, "enc" => "OK " ++ hexB (Spec.Modes.cbcEnc E i d)
        | .cbc, _ => showSpec ((Spec.Modes.cbcDec D i d).map hexB))
    | _, _, _, _ => none
  | "sm4modehist" :: mode :: key :: ops =>
    match modeOf mode, bytesOfHex key with
    | some m, some k => if k.length ≠ 16 then some "ERR" else some ("OK " ++ String.intercalate " " (modeHistSpec m k ops))
    | _, _ => none
  | ["sm4rt", mode, key, iv, data] =>
    match modeOf mode, bytesOfHex key, bytesOfHex iv, bytesOfHex data with
    | some m, some k, some i, some d =>
      if k.length ≠ 16 ∨ i.length ≠ 16 then some "ERR" else
      let E := Spec.SM4.encBytes k
      let ct := match m with
        | .ctr => Spec.Modes.ctr E i d | .ofb => Spec.Modes.ofb E i d
        | .cfb => Spec.Modes.cfbEnc E i d | .cbc => Spec.Modes.cbcEnc E i d
      some ("OK " ++ hexB ct ++ " " ++ hexB d)
    | _, _, _, _ => none
  | "zuc" :: key :: iv :: ns =>
    match bytesOfHex key, bytesOfHex iv with
    | some k, some i =>
      let reqs := ns.filterMap String.toNat?
      if reqs.length ≠ ns.length then none else
      if k.length ≠ 16 ∨ i.length ≠ 16 then some "ANY" else
      some ("OK " ++ String.intercalate " " ((splitBy (Spec.ZUC.stream k i reqs.sum) reqs).map showWords))
    | _, _ => none
  | [op, key, count, bearer, dir, len, ws] =>
    if op = "eea" ∨ op = "eea2" ∨ op = "eia" then
      match bytesOfHex key, natOfHex count, natOfHex bearer, natOfHex dir, natOfHex len, parseWords ws with
      | some k, some c, some b, some d, some l, some m =>
        if k.length ≠ 16 ∨ b ≥ 32 ∨ d ≥ 2 ∨ l ≥ 2 ^ 32 ∨ c ≥ 2 ^ 32 ∨ m.length < (l + 31) / 32 then some "ANY" else
        let c := UInt32.ofNat c
        if op = "eea" then some ("OK " ++ showWords (Spec.EEA3.eea3 k c b d l m))
        else if op = "eea2" then
          let r := Spec.EEA3.eea3 k c b d l m
          some ("OK " ++ showWords r ++ " " ++ showWords (Spec.EEA3.eea3 k c b d l r))
        else some ("OK " ++ hex8 (Spec.EEA3.eia3 k c b d l m))
      | _, _, _, _, _, _ => none
    else none
  | _ => none

end GmVerif.Drv.Sym
