import GmVerif.Thm.C17

#print axioms GmVerif.Thm.C17.exch_1b_off_curve
#print axioms GmVerif.Thm.C17.exch_1b_off_curve_kind
#print axioms GmVerif.Thm.C17.exch_2a_off_curve
#print axioms GmVerif.Thm.C17.exch_2a_off_curve_kind
#print axioms GmVerif.Thm.C17.exch_1b_key_formula
#print axioms GmVerif.Thm.C17.exch_2a_ok_iff
#print axioms GmVerif.Thm.C17.exch_2a_key_formula
#print axioms GmVerif.Thm.C17.exch_kdf_is_spec
#print axioms GmVerif.Thm.C17.exch_key_length
#print axioms GmVerif.Thm.C17.exch_klen_zero
#print axioms GmVerif.Thm.C17.exch_2a_single_pass
#print axioms GmVerif.Thm.C17.exch_2a_no_panic
#print axioms GmVerif.Thm.C17.exch_2a_large_ra_panics
#print axioms GmVerif.Thm.C17.exch_1b_loop_bounded
#print axioms GmVerif.Thm.C17.exch_1b_iterations
#print axioms GmVerif.Thm.C17.exch_1a_shape
#print axioms GmVerif.Thm.C17.exch_no_endless_loop
#print axioms GmVerif.Thm.C17.exch_1b_no_panic

/-! ### sanity run (evaluation, not a proof): the success hypotheses of the shape theorems are inhabited -/
open GmVerif GmVerif.Impl.SM9 in
def demoC17 : Outcome String := do
  let c1 : List UInt8 := List.replicate 31 0 ++ [1]
  let c7 : List UInt8 := List.replicate 31 0 ++ [7]
  let c9 : List UInt8 := List.replicate 31 0 ++ [9]
  let mk ← enc_master_key_generate [c7]
  let some ka ← mk.val.extract_exch_key [0x41] | .err "nokey"
  let some kb ← mk.val.extract_exch_key [0x42] | .err "nokey"
  let a1 ← exch_step_1a mk.val [0x42] [c9]
  let b1 ← exch_step_1b mk.val [0x41] [0x42] kb a1.val.1 16 [c1, c7]
  let ska ← exch_step_2a mk.val [0x41] [0x42] ka a1.val.2 a1.val.1 b1.val.1 16
  return s!"keys agree: {ska == b1.val.2}, length {ska.length}, scalars used {b1.used}"

/-- info: GmVerif.Outcome.ok "keys agree: true, length 16, scalars used [1]" -/
#guard_msgs in
#eval demoC17
