import GmVerif.Thm.C11

#print axioms GmVerif.Thm.C11.field_facts
#print axioms GmVerif.Thm.C11.fp_inv_correct
#print axioms GmVerif.Thm.C11.G1_valid
#print axioms GmVerif.Thm.C11.G2_valid
#print axioms GmVerif.Thm.C11.G1_toSpec
#print axioms GmVerif.Thm.C11.G2_toSpec
#print axioms GmVerif.Thm.C11.is_valid_iff
#print axioms GmVerif.Thm.C11.toSpec_onCurve
#print axioms GmVerif.Thm.C11.neg_correct
#print axioms GmVerif.Thm.C11.point_dbl_correct
#print axioms GmVerif.Thm.C11.point_add_correct
#print axioms GmVerif.Thm.C11.to_affine_correct
#print axioms GmVerif.Thm.C11.is_valid_affine_iff
#print axioms GmVerif.Thm.C11.to_byte_correct
#print axioms GmVerif.Thm.C11.from_byte_correct
#print axioms GmVerif.Thm.C11.preTable_correct
#print axioms GmVerif.Thm.C11.scalar_mul_correct
#print axioms GmVerif.Thm.C11.table_correct
#print axioms GmVerif.Thm.C11.g_mul_correct
-- supporting results
#print axioms GmVerif.Proofs.SM2Table.chord_sound
#print axioms GmVerif.Proofs.SM2Table.tangent_sound
#print axioms GmVerif.Proofs.SM2Table.row_sound
#print axioms GmVerif.Proofs.SM2Table.first_point
#print axioms GmVerif.Proofs.SM2TableRows.rows_ok
#print axioms GmVerif.Proofs.SM2TableRows.links_ok
