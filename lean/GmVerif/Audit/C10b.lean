import GmVerif.Thm.C10b

#print axioms GmVerif.Thm.C10b.encrypt_no_panic
#print axioms GmVerif.Thm.C10b.encrypt_long_panics
#print axioms GmVerif.Thm.C10b.dense_pow
#print axioms GmVerif.Thm.C10b.sampler_refines
#print axioms GmVerif.Thm.C10b.encrypt_refines
#print axioms GmVerif.Thm.C10b.encrypt_refines_honest
#print axioms GmVerif.Thm.C10b.specEncLoop_single
#print axioms GmVerif.Thm.C10b.encrypt_ok_iff
#print axioms GmVerif.Thm.C10b.encryptWith_empty
#print axioms GmVerif.Thm.C10b.encrypt_empty
#print axioms GmVerif.Thm.C10b.decrypt_refines
#print axioms GmVerif.Thm.C10b.decrypt_exact
#print axioms GmVerif.Thm.C10b.decrypt_sound
#print axioms GmVerif.Thm.C10b.decrypt_complete
#print axioms GmVerif.Thm.C10b.decrypt_refines_none
#print axioms GmVerif.Thm.C10b.decrypt_model
#print axioms GmVerif.Thm.C10b.noncanonical_rejected
#print axioms GmVerif.Thm.C10b.decrypt_long
#print axioms GmVerif.Thm.C10b.spec_decrypt_iff
#print axioms GmVerif.Thm.C10b.encrypt_then_decrypt_impl
#print axioms GmVerif.Thm.C10b.encrypt_then_decrypt_own_key
#print axioms GmVerif.Thm.C10b.ex_ext
#print axioms GmVerif.Thm.C10b.ex_re_bytes

/-! ### evaluation (not a proof): the repaired defect and the two remaining differences, on the Annex C keys -/
open GmVerif GmVerif.Impl.SM9

/-- the repaired defect — a C1 coordinate that is not reduced modulo p: master key of Annex C, identity "Bob", M = 01 02 03,
r = 3 — the x coordinate of C1 = [3]Q_B is below 2^256 − p, so x + p fits in 32 bytes; K, C2, C3 are computed for the octets
(x + p) ‖ y.  The unfixed code decrypted this ciphertext to 01 02 03; now the model (`InvalidPoint`) and the standard both
reject it.  The same octets are `Thm.C10.noncanonicalCt`. -/
def demoNoncanonical : Outcome String := do
  let idb := Thm.SpecSM9.exIdB
  let msg : List UInt8 := [1, 2, 3]
  let mk ← enc_master_key_generate [natBE 32 Thm.SpecSM9.exKe]
  let some key ← mk.val.extract_key idb | .err "nokey"
  let t ← sm9_u256_hash1 idb Gen.SM9.HID_ENC
  let q0 ← POINT_MONT_P1.point_mul t
  let c1 ← (q0.point_add mk.val.ppube).point_mul 3
  let a := c1.to_affine_point
  let x := fp_from_mont a.x
  let w ← (sm9_u256_pairing TWIST_POINT_MONT_P2 mk.val.ppube).pow 3
  let oct := natBE 32 (x + Spec.SM9.p) ++ natBE 32 (fp_from_mont a.y)
  let k := kdf (oct ++ w.to_bytes_be ++ idb) 287
  let c2 := List.zipWith (· ^^^ ·) msg (k.take msg.length)
  let ct := [0x04] ++ oct ++ sm3 (c2 ++ (k.drop msg.length).take 32) ++ c2
  let sres := (Spec.SM9.extractEnc Thm.SpecSM9.exKe idb Spec.SM9.hidEnc).bind fun d => Spec.SM9.decrypt d idb ct
  return s!"x + p < 2^256: {decide (x + Spec.SM9.p < 2 ^ 256)}, canonical: {decide (Thm.C10b.CanonC1 ct)}, model: {repr (key.decrypt idb ct)}, standard: {sres}, = Thm.C10.noncanonicalCt: {decide (ct = Thm.C10.noncanonicalCt)}, C = {hexOfBytes ct}"

/--
info: GmVerif.Outcome.ok
  "x + p < 2^256: true, canonical: false, model: GmVerif.Outcome.err \"InvalidPoint\", standard: none, = Thm.C10.noncanonicalCt: true, C = 04eb1e64a6e159d719ff71a64b83b56ff128e2d29533f7e591f4e5daaa2263e4dd7b94791ba6e28402f7aa65425430c3c604684fcf572d0b7c0ff3255b3ed85a55bdab7ed51494bec2654f10ac13d5bbe1358ea796b0c8d6517ae2dfc4037a8669e5cc7c"
-/
#guard_msgs in
#eval demoNoncanonical

/-- remaining difference: more than 255 message octets: the standard encrypts and decrypts 256 octets, the model's `decrypt` refuses the
353-octet ciphertext (and its `encrypt` would panic on the 256-octet message: `encrypt_long_panics`) -/
def demoLong : Outcome String := do
  let idb := Thm.SpecSM9.exIdB
  let msg : List UInt8 := List.replicate 256 0x61
  let mk ← enc_master_key_generate [natBE 32 Thm.SpecSM9.exKe]
  let some key ← mk.val.extract_key idb | .err "nokey"
  let some de := Spec.SM9.extractEnc Thm.SpecSM9.exKe idb Spec.SM9.hidEnc | .err "nokey"
  let some ct := Spec.SM9.encryptWith (Spec.SM9.encMasterPub Thm.SpecSM9.exKe) idb msg 3 | .err "retry"
  return s!"|C| = {ct.length}, standard decrypts: {Spec.SM9.decrypt de idb ct == some msg}, model: {repr (key.decrypt idb ct)}"

/-- info: GmVerif.Outcome.ok "|C| = 353, standard decrypts: true, model: GmVerif.Outcome.err \"InvalidFieldLen\"" -/
#guard_msgs in
#eval demoLong

/-- the empty message: the model returns 97 octets after one draw; its own `decrypt` refuses them -/
def demoEmpty : Outcome String := do
  let idb := Thm.SpecSM9.exIdB
  let mk ← enc_master_key_generate [natBE 32 Thm.SpecSM9.exKe]
  let some key ← mk.val.extract_key idb | .err "nokey"
  let ct ← mk.val.encrypt idb [] [natBE 32 3]
  return s!"|C| = {ct.val.length}, scalars used {ct.used}, model decrypt: {repr (key.decrypt idb ct.val)}"

/-- info: GmVerif.Outcome.ok "|C| = 97, scalars used [3], model decrypt: GmVerif.Outcome.err \"InvalidFieldLen\"" -/
#guard_msgs in
#eval demoEmpty

/-- the refinement on a run: Annex C values, the model's ciphertext is the standard's -/
def demoAnnex : Outcome String := do
  let idb := Thm.SpecSM9.exIdB
  let mk ← enc_master_key_generate [natBE 32 Thm.SpecSM9.exKe]
  let ct ← mk.val.encrypt idb Thm.SpecSM9.exMsgE [natBE 32 0, natBE 32 Thm.SpecSM9.exRE, natBE 32 5]
  let s := Spec.SM9.encryptWith (Spec.SM9.encMasterPub Thm.SpecSM9.exKe) idb Thm.SpecSM9.exMsgE Thm.SpecSM9.exRE
  return s!"same octets: {some ct.val == s}, used = [r]: {ct.used == [Thm.SpecSM9.exRE]}, left: {ct.rest.length}"

/-- info: GmVerif.Outcome.ok "same octets: true, used = [r]: true, left: 1" -/
#guard_msgs in
#eval demoAnnex
