import GmVerif.Thm.C12e
open GmVerif.Thm.C12e
#print axioms twFrob_constants
#print axioms canon2_of_onTwist
#print axioms twist_card_le
#print axioms g2_witness
#print axioms g2_cyclic
#print axioms untwist_twFrob
#print axioms twFrob_P2
#print axioms twFrob_add2
#print axioms twFrob_mul2
#print axioms frob_eigen
#print axioms frob_eigen_untwist
#print axioms twFrob_mem
#print axioms untwist_add2_chord
#print axioms frob_congruences
#print axioms chordOK_of_multiples
#print axioms frobChords_of_point
#print axioms frobGeneric_of_loop_point
#print axioms sdGeneric_of_loop_point
#print axioms untwist_add2_tangent
#print axioms loop_point
#print axioms abits_value
#print axioms sdGeneric
#print axioms chainGeneric
#print axioms millerRefines_of_chainIndependent
#print axioms pairingRefines_of_chainIndependent
