import GmVerif.Thm.C17c

#print axioms GmVerif.Thm.C17c.pairingRefines
#print axioms GmVerif.Thm.C17c.towerDense
#print axioms GmVerif.Thm.C17c.exch_1b_refines
#print axioms GmVerif.Thm.C17c.exch_1b_refines_honest
#print axioms GmVerif.Thm.C17c.exch_2a_refines
#print axioms GmVerif.Thm.C17c.exch_agree_impl
#print axioms GmVerif.Thm.C17c.exch_agree_direct
#print axioms GmVerif.Thm.C17c.exch_agree_wire
