import GmVerif.Thm.C18d
open GmVerif

#print axioms GmVerif.Proofs.SrcEIA.gen_mac_eq
#print axioms GmVerif.Thm.C18d.src_eia_gen_mac_eq_impl
#print axioms GmVerif.Thm.C18d.src_eia_run_eq_impl
#print axioms GmVerif.Thm.C18d.src_eia_refines
#print axioms GmVerif.Thm.C18d.src_eia_short_panics

/-! running the translated code itself (compiled evaluation, not a proof) next to the model: the 3GPP 128-EIA3 test
vector of the repo test (`eia.rs::test_eia`), and translated code == model on short / misaligned / panicking inputs
(all of this is also PROVED for all inputs: `src_eia_run_eq_impl`) -/
def eiaRun (ik : Array UInt8) (count bearer direction : UInt32) (msg : Array UInt32) (len : UInt32) :
    Outcome UInt32 := do
  let e ← Gen.SrcEIA.EIA.new ik count bearer direction
  let p ← Gen.SrcEIA.EIA.gen_mac e msg len
  pure p.1

def eiaModel (ik : List UInt8) (count bearer direction : UInt32) (msg : List UInt32) (len : UInt32) :
    Outcome UInt32 :=
  ((Impl.EEA.eiaNew ik count bearer direction).bind (fun z => Impl.EEA.eiaGenMac z msg len)).map (·.1)

def ik2 : List UInt8 := [0xc9, 0xe6, 0xce, 0xc4, 0x60, 0x7c, 0x72, 0xdb, 0x00, 0x0a, 0xef, 0xa8, 0x83, 0x85, 0xab, 0x0a]
def m2 : List UInt32 := [0x983b41d4, 0x7d780c9e, 0x1ad11d7e, 0xb70391b1, 0xde0b35da, 0x2dc62f83, 0xe7b78d63,
  0x06ca0ea0, 0x7e941b7b, 0xe91348f9, 0xfcb170e2, 0x217fecd9, 0x7f9f68ad, 0xb16e5d7d,
  0x21e569d2, 0x80ed775c, 0xebde3f40, 0x93c53881, 0x00000000]

#guard eiaRun ik2.toArray 0xa94059da 0x0a 0x01 m2.toArray 0x0241 == .ok 0xfae8ff0b
#guard eiaModel ik2 0xa94059da 0x0a 0x01 m2 0x0241 == .ok 0xfae8ff0b
-- translated code == model for every ilen in 0..=100 and message lengths 0..=4 (ok and panic outcomes)
#guard (List.range 101).all fun n => (List.range 5).all fun k =>
  eiaRun ik2.toArray 1 2 1 (m2.take k).toArray n.toUInt32 == eiaModel ik2 1 2 1 (m2.take k) n.toUInt32
-- a 2-word message for 65 bits panics (`m[2]`), as in Rust
#guard eiaRun ik2.toArray 1 2 1 (m2.take 2).toArray 65 == .panic
-- a short key panics in `EIA::new`
#guard eiaRun (ik2.take 15).toArray 1 2 1 m2.toArray 64 == .panic
