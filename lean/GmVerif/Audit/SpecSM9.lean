import GmVerif.Thm.SpecSM9

#print axioms GmVerif.Thm.SpecSM9.sm9_P1_onCurve
#print axioms GmVerif.Thm.SpecSM9.sm9_P2_onTwist
#print axioms GmVerif.Thm.SpecSM9.sm9_valid
#print axioms GmVerif.Thm.SpecSM9.sm9_g1_order
#print axioms GmVerif.Thm.SpecSM9.sm9_g2_order
#print axioms GmVerif.Thm.SpecSM9.sm9_mul_ne_none
#print axioms GmVerif.Thm.SpecSM9.onTwist_add2
#print axioms GmVerif.Thm.SpecSM9.onTwist_mul2
#print axioms GmVerif.Thm.SpecSM9.add2_comm
#print axioms GmVerif.Thm.SpecSM9.add2_assoc
#print axioms GmVerif.Thm.SpecSM9.mul2_add
#print axioms GmVerif.Thm.SpecSM9.mul2_mul
#print axioms GmVerif.Thm.SpecSM9.sm9_mul2_eq_none_iff
#print axioms GmVerif.Thm.SpecSM9.fp12_mul_comm
#print axioms GmVerif.Thm.SpecSM9.fp12_mul_assoc
#print axioms GmVerif.Thm.SpecSM9.fp12_pow_pow
#print axioms GmVerif.Thm.SpecSM9.fp12_pow_mul
#print axioms GmVerif.Thm.SpecSM9.fp12_pow_mod_of_order
#print axioms GmVerif.Thm.SpecSM9.pairingFacts_iff
#print axioms GmVerif.Thm.SpecSM9.pairingFacts_iff_mod
#print axioms GmVerif.Thm.SpecSM9.sign_then_verify
#print axioms GmVerif.Thm.SpecSM9.ex_H1
#print axioms GmVerif.Thm.SpecSM9.ex_extractSign
#print axioms GmVerif.Thm.SpecSM9.decrypt_encrypt
#print axioms GmVerif.Thm.SpecSM9.ex_extractEnc
#print axioms GmVerif.Thm.SpecSM9.exch_agree
#print axioms GmVerif.Thm.SpecSM9.exch_responder_some
#print axioms GmVerif.Thm.SpecSM9.ex_extractA
#print axioms GmVerif.Thm.SpecSM9.ex_extractB

/-! ### evaluation (interpreter; NOT proofs): the one hypothesis `PairingFacts.bilinear` on instances, and the premises of
the Part 3 examples that contain a pairing, with the GM/T 0044.5 Annex values.  Every line must print `true`. -/
section Eval
open GmVerif GmVerif.Spec.EC GmVerif.Spec.SM9 GmVerif.Thm.SpecSM9

def bilinearAt (a b : Nat) : Bool :=
  pairing (mul curve a P1) (mul2 b P2) == Fp12.pow (pairing P1 P2) (a * b)
#eval bilinearAt 0 0 && bilinearAt 0 7 && bilinearAt 7 0 && bilinearAt 1 1 && bilinearAt 2 3
#eval bilinearAt N 1 && bilinearAt 3 N && bilinearAt (N + 5) (2 * N + 3) && bilinearAt (N - 1) (N - 1)
#eval bilinearAt exKs exKe && bilinearAt (2 ^ 300 + 12345) (2 ^ 257 + 1)

-- Annex A: (h, S)
#eval signWith (signMasterPub exKs) exDsA exMsgS exRS == some
  (0x823C4B21E4BD2DFE1ED92C606653E996668563152FC33F55D7BFBB9BD9705ADB, some
   (0x73BF96923CE58B6AD0E13E9643A406D8EB98417C50EF1B29CEF9ADB48B6D598C,
    0x856712F1C2E0968AB7769F42A99586AED139D5B8B3E15891827CC2ACED9BAA05))
-- Annex C: the ciphertext C1 ‖ C3 ‖ C2 and its decryption
#eval (encryptWith (encMasterPub exKe) exIdB exMsgE exRE).map hexOfBytes == some
  ("042445471164490618e1ee20528ff1d545b0f14c8bcaa44544f03dab5dac07d8ff42ffca97d57cddc05ea405f2e586feb3a6930715532b8000759f13059ed59ac0" ++
   "ba672387bcd6de5016a158a52bb2e7fc429197bcab70b25afee37a2b9db9f367" ++ "1b5f5b0e951489682f3e64e1378cdd5da9513b1c")
#eval (encryptWith (encMasterPub exKe) exIdB exMsgE exRE).bind (decrypt exDeB exIdB) == some exMsgE
-- Annex B: SKB = SKA = C5C13A8F59A97CDEAE64F16A2272A9E7
#eval (exchResponder (encMasterPub exKx) exDeBx exIdA exIdB (exchEphemeral (encMasterPub exKx) exIdB exRA) exRB 16).map
  (fun x => hexOfBytes x.2) == some "c5c13a8f59a97cdeae64f16a2272a9e7"
end Eval
