import GmVerif.Thm.C11b

#print axioms GmVerif.Thm.C11b.is_valid_iff
#print axioms GmVerif.Thm.C11b.toSpec_onCurve
#print axioms GmVerif.Thm.C11b.neg_correct
#print axioms GmVerif.Thm.C11b.point_dbl_correct
#print axioms GmVerif.Thm.C11b.point_add_correct
#print axioms GmVerif.Thm.C11b.to_affine_correct
#print axioms GmVerif.Thm.C11b.is_valid_affine_iff
#print axioms GmVerif.Thm.C11b.to_byte_correct
#print axioms GmVerif.Thm.C11b.from_byte_correct
#print axioms GmVerif.Thm.C11b.G1_valid
#print axioms GmVerif.Thm.C11b.G2_valid
-- branch lemmas and supporting results
#print axioms GmVerif.Proofs.SM2Curve.add_generic
#print axioms GmVerif.Proofs.SM2Curve.add_same_point_other_Z
#print axioms GmVerif.Proofs.SM2Curve.add_opposite
#print axioms GmVerif.Proofs.SM2Curve.add_inf_left
#print axioms GmVerif.Proofs.SM2Curve.add_inf_right
#print axioms GmVerif.Proofs.SM2Curve.add_identical
#print axioms GmVerif.Proofs.SM2Curve.fp_pow_enc
#print axioms GmVerif.Proofs.SM2CurveTors.no_two_torsion
