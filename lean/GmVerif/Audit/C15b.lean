import GmVerif.Thm.C15b
open GmVerif.Thm.C15b

#print axioms flipFirst_ne
#print axioms flipLast_ne
#print axioms kex_sb_tampered
#print axioms kex_sa_tampered
#print axioms kex_ok_shape
#print axioms kex_total
#print axioms kex_offcurve_ra
#print axioms kex_ok_points_valid
#print axioms kex_honest_sb_tampered
#print axioms kex_honest_sa_tampered
#print axioms ex_run
