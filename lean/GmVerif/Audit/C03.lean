import GmVerif.Thm.C03

#print axioms GmVerif.Thm.C03.compute_za_refines
#print axioms GmVerif.Thm.C03.verify_raw_complete
#print axioms GmVerif.Thm.C03.verify_raw_refines
#print axioms GmVerif.Thm.C03.verify_raw_sound
#print axioms GmVerif.Thm.C03.cx_now_rejected
#print axioms GmVerif.Thm.C03.sign_raw_refines
#print axioms GmVerif.Thm.C03.sign_raw_retry
#print axioms GmVerif.Thm.C03.sign_then_verify_impl
#print axioms GmVerif.Thm.C03.sign_then_verify_own_key
#print axioms GmVerif.Thm.C03.kdf_refines
#print axioms GmVerif.Thm.C03.encLoop_refines
#print axioms GmVerif.Thm.C03.encLoop_retry
#print axioms GmVerif.Thm.C03.encrypt_refines
#print axioms GmVerif.Thm.C03.decrypt_refines
#print axioms GmVerif.Thm.C03.decrypt_refines_none
#print axioms GmVerif.Thm.C03.encrypt_then_decrypt_impl
#print axioms GmVerif.Thm.C03.kex_refines
#print axioms GmVerif.Thm.C03.kex_refines_honest
#print axioms GmVerif.Thm.C03.ex_kex_spec
