import GmVerif.Thm.C08b
open GmVerif.Thm.C08b

#print axioms requests_append
#print axioms reachable_rel
#print axioms reachable_exists
#print axioms cells_never_zero
#print axioms cells_length
#print axioms work_mode_eq
#print axioms init_mode_eq
#print axioms work_patch_dead
#print axioms init_patch_dead
#print axioms lfsr_feedback_canonical
#print axioms relMax
#print axioms relOne
