import GmVerif.Thm.C17b

#print axioms GmVerif.Thm.C17b.exch_1b_off_curve
#print axioms GmVerif.Thm.C17b.exch_1b_off_curve_kind
#print axioms GmVerif.Thm.C17b.exch_1b_no_panic
#print axioms GmVerif.Thm.C17b.exch_1a_refines
#print axioms GmVerif.Thm.C17b.exch_1a_single
#print axioms GmVerif.Thm.C17b.exch_1b_refines
#print axioms GmVerif.Thm.C17b.exch_1b_refines_honest
#print axioms GmVerif.Thm.C17b.specRespLoop_some
#print axioms GmVerif.Thm.C17b.received_on_curve_iff
#print axioms GmVerif.Thm.C17b.exch_1b_rejects
#print axioms GmVerif.Thm.C17b.exch_2a_refines
#print axioms GmVerif.Thm.C17b.exch_agree_impl
#print axioms GmVerif.Thm.C17b.exch_agree_direct
#print axioms GmVerif.Thm.C17b.exch_agree_wire
#print axioms GmVerif.Thm.C17b.infinity_received
#print axioms GmVerif.Thm.C17b.ex_ra_bytes
#print axioms GmVerif.Thm.C17b.ex_ext_A
#print axioms GmVerif.Thm.C17b.ex_ext_B

/-! ### evaluation (not a proof): the honest run of Annex B on the model against the standard -/
open GmVerif GmVerif.Impl.SM9 GmVerif.Thm.SpecSM9

def demoExch : Outcome String := do
  let mk ← enc_master_key_generate [natBE 32 exKx]
  let some keyA ← mk.val.extract_exch_key exIdA | .err "nokey"
  let some keyB ← mk.val.extract_exch_key exIdB | .err "nokey"
  let a ← exch_step_1a mk.val exIdB [natBE 32 0, natBE 32 exRA]
  -- B receives the octets of R_A and parses them
  let raB ← Point.from_bytes a.val.1.to_bytes_be
  let b ← exch_step_1b mk.val exIdA exIdB keyB raB 16 [natBE 32 (2 ^ 64), natBE 32 exRB]
  let rbA ← Point.from_bytes b.val.1.to_bytes_be
  let ska ← exch_step_2a mk.val exIdA exIdB keyA a.val.2 a.val.1 rbA 16
  let Ppub := Spec.SM9.encMasterPub exKx
  let RA := Spec.SM9.exchEphemeral Ppub exIdB exRA
  let sb := Spec.SM9.exchResponder Ppub exDeBx exIdA exIdB RA exRB 16
  return s!"used A {a.used == [exRA]}, used B {b.used == [exRB]}, SKA = SKB: {ska == b.val.2}, = the standard's: {sb.map (·.2) == some ska}, R_B octets: {sb.map (fun x => Spec.SM9.encodePoint x.1) == some b.val.1.to_bytes_be}, SK = {hexOfBytes ska}"

/--
info: GmVerif.Outcome.ok
  "used A true, used B true, SKA = SKB: true, = the standard's: true, R_B octets: true, SK = c5c13a8f59a97cdeae64f16a2272a9e7"
-/
#guard_msgs in
#eval demoExch
