import GmVerif.Thm.C08d
open GmVerif

#print axioms GmVerif.Thm.C08d.corr_iff
#print axioms GmVerif.Thm.C08d.ofImpl_injective
#print axioms GmVerif.Thm.C08d.src_chk_consts
#print axioms GmVerif.Thm.C08d.src_chk_consts_spec
#print axioms GmVerif.Thm.C08d.src_chk_leaf_eq_impl
#print axioms GmVerif.Thm.C08d.src_chk_sbox_eq_impl
#print axioms GmVerif.Thm.C08d.src_chk_rot31_eq_impl
#print axioms GmVerif.Thm.C08d.src_chk_bit_reconstruction_eq_impl
#print axioms GmVerif.Thm.C08d.src_chk_f_eq_impl
#print axioms GmVerif.Thm.C08d.src_chk_lfsr_with_initialization_mode_eq_impl
#print axioms GmVerif.Thm.C08d.src_chk_lfsr_with_work_mode_eq_impl
#print axioms GmVerif.Thm.C08d.src_chk_new_eq_impl
#print axioms GmVerif.Thm.C08d.src_chk_new_corr
#print axioms GmVerif.Thm.C08d.src_chk_generate_keystream_eq_impl
#print axioms GmVerif.Thm.C08d.src_chk_requests_eq_impl
#print axioms GmVerif.Thm.C08d.src_chk_keystream_refines
#print axioms GmVerif.Thm.C08d.src_chk_split_independent

/-! running the translated code itself (compiled evaluation, not a proof): the test vectors 1-3 of the
ZUC specification (ETSI/SAGE Document 2, v1.6, section "Test vectors"; GM/T 0001.1-2012 Annex) -/
def ksHexChk (k iv : Array UInt8) (n : Nat) : Outcome (List String) := do
  let r ← Gen.SrcZUCChk.ZUC.new k iv
  let p ← Gen.SrcZUCChk.ZUC.generate_keystream r n
  pure (p.1.toList.map fun w => hexOfBytes (be32 w))

#guard ksHexChk (Array.replicate 16 0) (Array.replicate 16 0) 2 == .ok ["27bede74", "018082da"]
#guard ksHexChk (Array.replicate 16 0xff) (Array.replicate 16 0xff) 2 == .ok ["0657cfa0", "7096398b"]
#guard ksHexChk #[0x3d, 0x4c, 0x4b, 0xe9, 0x6a, 0x82, 0xfd, 0xae, 0xb5, 0x8f, 0x64, 0x1d, 0xb1, 0x7b, 0x45, 0x5b]
             #[0x84, 0x31, 0x9a, 0xa8, 0xde, 0x69, 0x15, 0xca, 0x1f, 0x6b, 0xda, 0x6b, 0xfb, 0xd8, 0xc7, 0x66] 2
  == .ok ["14f1c272", "3279c419"]
-- a split request history gives the same words
#guard (do let r ← Gen.SrcZUCChk.ZUC.new (Array.replicate 16 0) (Array.replicate 16 0)
           Proofs.SrcZUCChk.srcRequests r [0, 1, 0, 1] : Outcome _)
  == .ok [#[], #[0x27bede74], #[], #[0x018082da]]
-- a 15-byte key panics (index out of range), as in Rust
#guard Gen.SrcZUCChk.ZUC.new (Array.replicate 15 0) (Array.replicate 16 0) == .panic
