/-
Audit of property C08: axioms used by every property theorem
(expected: a subset of `propext`, `Classical.choice`, `Quot.sound`; no `sorryAx`, no `Lean.ofReduceBool`).
-/
import GmVerif.Thm.C08
open GmVerif.Thm.C08

#print axioms gen_consts
#print axioms tables_length
#print axioms d_nonzero
#print axioms rot31_mul
#print axioms rot31_pos
#print axioms add31_add
#print axioms inv_load
#print axioms inv_initRound
#print axioms inv_workStep
#print axioms lfsr_work_refines
#print axioms lfsr_init_refines
#print axioms new_refines
#print axioms generate_refines
#print axioms keystream_first
#print axioms split_independent
#print axioms request_lengths
#print axioms new_panic_iff
