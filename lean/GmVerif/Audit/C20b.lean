import GmVerif.Thm.C20b

#print axioms GmVerif.Thm.C20b.decrypt_total
#print axioms GmVerif.Thm.C20b.verify_total
#print axioms GmVerif.Thm.C20b.mod_n_from_hash_total
#print axioms GmVerif.Thm.C20b.mod_n_from_hash_not_panic
#print axioms GmVerif.Thm.C20b.mod_n_from_hash_ok
#print axioms GmVerif.Thm.C20b.mod_n_from_hash_not_err
#print axioms GmVerif.Thm.C20b.hash1_total
#print axioms GmVerif.Thm.C20b.hash2_total
#print axioms GmVerif.Thm.C20b.hash1_no_panic
#print axioms GmVerif.Thm.C20b.hash2_no_panic
#print axioms GmVerif.Thm.C20b.kdf_total
#print axioms GmVerif.Thm.C20b.kdf_length_le
#print axioms GmVerif.Thm.C20b.from_bytes_panic_iff
#print axioms GmVerif.Thm.C20b.from_bytes_not_err
#print axioms GmVerif.Thm.C20b.u256_from_be_bytes_panic_iff
#print axioms GmVerif.Thm.C20b.pow_panic_iff
#print axioms GmVerif.Thm.C20b.mac_panic_iff
#print axioms GmVerif.Thm.C20b.xor_panic_iff
