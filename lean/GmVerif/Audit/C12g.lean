import GmVerif.Thm.C12g
open GmVerif.Thm.C12g
#print axioms five_not_square
#print axioms pgood_of_onCurve
#print axioms vertical_ne
#print axioms multiple_data
#print axioms multiple_tangent
#print axioms multiple_chord
#print axioms exists_order_N
#print axioms carry_double_multiples
#print axioms carry_minus_multiples
#print axioms trans_table
#print axioms run_value
#print axioms lockstep_step
#print axioms lockstep_fold
#print axioms lockstep_init
#print axioms millerSD_approx
#print axioms chainIndependent
#print axioms millerRefines
#print axioms pairingRefines
#print axioms pairing_eq_millerSD
