import GmVerif.Thm.C01c
open GmVerif

#print axioms GmVerif.Thm.C01c.src_consts
#print axioms GmVerif.Thm.C01c.src_leaf_eq_impl
#print axioms GmVerif.Thm.C01c.src_cf_eq_impl
#print axioms GmVerif.Thm.C01c.src_pad_eq_impl
#print axioms GmVerif.Thm.C01c.src_sm3_hash_eq_impl
#print axioms GmVerif.Thm.C01c.src_sm3_refines
#print axioms GmVerif.Thm.C01c.src_sm3_refines_array
#print axioms GmVerif.Thm.C01c.src_chk_cf_eq_impl
#print axioms GmVerif.Thm.C01c.src_chk_pad_eq_impl
#print axioms GmVerif.Thm.C01c.src_chk_sm3_hash_eq_impl
#print axioms GmVerif.Thm.C01c.src_chk_sm3_refines

/-! running the translated code itself (compiled evaluation, not a proof): Annex A.1 and A.2 -/
#guard (Gen.SrcSM3.sm3_hash #[0x61, 0x62, 0x63]).map (fun d => hexOfBytes d.toList)
  == .ok "66c7f0f462eeedd9d1f2d46bdc10e4e24167c4875cf2f7a2297da02b8f4ba8e0"
#guard (Gen.SrcSM3.sm3_hash (List.replicate 16 [0x61, 0x62, 0x63, 0x64]).flatten.toArray).map
    (fun d => hexOfBytes d.toList)
  == .ok "debe9ff92275b8a138604889c18e5a4d6fdb70e5387e5765293dcba39c0c5732"
#guard (Gen.SrcSM3Chk.sm3_hash #[0x61, 0x62, 0x63]).map (fun d => hexOfBytes d.toList)
  == .ok "66c7f0f462eeedd9d1f2d46bdc10e4e24167c4875cf2f7a2297da02b8f4ba8e0"
