import GmVerif.Thm.C01

#print axioms GmVerif.Thm.C01.gen_consts
#print axioms GmVerif.Thm.C01.pad_refines
#print axioms GmVerif.Thm.C01.pad_total
#print axioms GmVerif.Thm.C01.cf_refines
#print axioms GmVerif.Thm.C01.sm3_refines
#print axioms GmVerif.Thm.C01.sm3_refines_unguarded
#print axioms GmVerif.Thm.C01.sm3_total
#print axioms GmVerif.Thm.C01.spec_hash_length
