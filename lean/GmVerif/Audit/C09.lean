import GmVerif.Thm.C09

#print axioms GmVerif.Thm.C09.verify_ok_iff
#print axioms GmVerif.Thm.C09.verify_total
#print axioms GmVerif.Thm.C09.verify_h_out_of_range
#print axioms GmVerif.Thm.C09.verify_h_out_of_range_kind
#print axioms GmVerif.Thm.C09.sign_shape
#print axioms GmVerif.Thm.C09.mod_n_sub_canonical
#print axioms GmVerif.Thm.C09.sign_result_shape
#print axioms GmVerif.Thm.C09.sign_loop_no_panic
#print axioms GmVerif.Thm.C09.sign_no_panic

/-! ### sanity run (evaluation, not a proof): the success hypotheses of the shape theorems are inhabited -/
open GmVerif GmVerif.Impl.SM9 in
def demoC09 : Outcome String := do
  let c7 : List UInt8 := List.replicate 31 0 ++ [7]
  let c9 : List UInt8 := List.replicate 31 0 ++ [9]
  let mk ← sign_master_key_generate [c7]
  let some key ← mk.val.extract_key [0x42] | .err "nokey"
  let sg ← key.sign [1, 2, 3] [c9]
  let _ ← mk.val.verify_sign [0x42] [1, 2, 3] sg.val.1 sg.val.2
  return s!"signed and verified, scalars used {sg.used}"

/-- info: GmVerif.Outcome.ok "signed and verified, scalars used [9]" -/
#guard_msgs in
#eval demoC09
