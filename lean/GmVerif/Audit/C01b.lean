import GmVerif.Thm.C01b

#print axioms GmVerif.Thm.C01b.sm3_hash_rep_eq
#print axioms GmVerif.Thm.C01b.specSm3Rep_eq
#print axioms GmVerif.Thm.C01b.sm3_hash_rep_refines
#print axioms GmVerif.Thm.C01b.sm3_hash_rep_bad_block
