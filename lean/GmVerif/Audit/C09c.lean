import GmVerif.Thm.C09c

#print axioms GmVerif.Thm.C09c.pairingRefines
#print axioms GmVerif.Thm.C09c.sign_refines
#print axioms GmVerif.Thm.C09c.sign_first
#print axioms GmVerif.Thm.C09c.sign_skip
#print axioms GmVerif.Thm.C09c.sign_retry
#print axioms GmVerif.Thm.C09c.verify_refines
#print axioms GmVerif.Thm.C09c.verify_sound
#print axioms GmVerif.Thm.C09c.verify_complete
#print axioms GmVerif.Thm.C09c.verify_reject
#print axioms GmVerif.Thm.C09c.verify_refines_from_bytes
#print axioms GmVerif.Thm.C09c.sign_then_verify_impl
