import GmVerif.Thm.C07c
open GmVerif

#print axioms GmVerif.Thm.C07c.src_block_xor_eq_impl
#print axioms GmVerif.Thm.C07c.src_block_add_one_eq_impl
#print axioms GmVerif.Thm.C07c.src_block_add_one_panic
#print axioms GmVerif.Thm.C07c.src_block_add_one_refines
#print axioms GmVerif.Thm.C07c.src_ctr_encrypt_eq_impl
#print axioms GmVerif.Thm.C07c.src_ofb_encrypt_eq_impl
#print axioms GmVerif.Thm.C07c.src_cfb_encrypt_eq_impl
#print axioms GmVerif.Thm.C07c.src_cfb_decrypt_eq_impl
#print axioms GmVerif.Thm.C07c.src_mode_new_eq_impl
#print axioms GmVerif.Thm.C07c.src_mode_new_refines
#print axioms GmVerif.Thm.C07c.src_ctr_refines
#print axioms GmVerif.Thm.C07c.src_ofb_refines
#print axioms GmVerif.Thm.C07c.src_cfb_enc_refines
#print axioms GmVerif.Thm.C07c.src_cfb_dec_refines
#print axioms GmVerif.Thm.C07c.src_cbc_encrypt_eq_impl
#print axioms GmVerif.Thm.C07c.src_cbc_decrypt_eq_impl
#print axioms GmVerif.Thm.C07c.src_mode_encrypt_eq_impl
#print axioms GmVerif.Thm.C07c.src_mode_decrypt_eq_impl
#print axioms GmVerif.Thm.C07c.src_mode_total
#print axioms GmVerif.Thm.C07c.src_encrypt_refines
#print axioms GmVerif.Thm.C07c.src_decrypt_refines
#print axioms GmVerif.Thm.C07c.src_cbc_round_trip

/-! running the translated code itself (compiled evaluation, not a proof) -/
open Gen.SrcSM4Mode in
def runEnc (m : CipherMode) (key data iv : List UInt8) : Outcome (List UInt8) :=
  (do let c ← Sm4CipherMode.new key.toArray m
      let e ← c.encrypt data.toArray iv.toArray
      pure e.toList)
open Gen.SrcSM4Mode in
def runDec (m : CipherMode) (key data iv : List UInt8) : Outcome (List UInt8) :=
  (do let c ← Sm4CipherMode.new key.toArray m
      let e ← c.decrypt data.toArray iv.toArray
      pure e.toList)

def lens : List Nat := [0, 1, 15, 16, 17, 31, 32, 33, 48, 100]
open Thm.C07 (exKey exIv exData)

-- the public entry points (dispatch + all four modes, CBC included) against the hand model, several lengths
#guard lens.all fun n => runEnc .Ctr exKey (exData n) exIv == Impl.SM4.mode_encrypt .ctr exKey (exData n) exIv
#guard lens.all fun n => runEnc .Ofb exKey (exData n) exIv == Impl.SM4.mode_encrypt .ofb exKey (exData n) exIv
#guard lens.all fun n => runEnc .Cfb exKey (exData n) exIv == Impl.SM4.mode_encrypt .cfb exKey (exData n) exIv
#guard lens.all fun n => runEnc .Cbc exKey (exData n) exIv == Impl.SM4.mode_encrypt .cbc exKey (exData n) exIv
#guard lens.all fun n => runDec .Ctr exKey (exData n) exIv == Impl.SM4.mode_decrypt .ctr exKey (exData n) exIv
#guard lens.all fun n => runDec .Ofb exKey (exData n) exIv == Impl.SM4.mode_decrypt .ofb exKey (exData n) exIv
#guard lens.all fun n => runDec .Cfb exKey (exData n) exIv == Impl.SM4.mode_decrypt .cfb exKey (exData n) exIv
#guard lens.all fun n => runDec .Cbc exKey (exData n) exIv == Impl.SM4.mode_decrypt .cbc exKey (exData n) exIv
-- round trips through the translated code only
#guard lens.all fun n => (runEnc .Cbc exKey (exData n) exIv >>= fun c => runDec .Cbc exKey c exIv) == .ok (exData n)
#guard lens.all fun n => (runEnc .Cfb exKey (exData n) exIv >>= fun c => runDec .Cfb exKey c exIv) == .ok (exData n)
#guard lens.all fun n => (runEnc .Ctr exKey (exData n) exIv >>= fun c => runDec .Ctr exKey c exIv) == .ok (exData n)
-- the values of `Thm.C07` (counter carry with IV = ff..ff)
#guard (runEnc .Ctr exKey (exData 17) exIv).map hexOfBytes == .ok "6810ad7d0d7662e08ef24fc551976eff36"
#guard (runEnc .Ofb exKey (exData 17) exIv).map hexOfBytes == .ok "6810ad7d0d7662e08ef24fc551976eff27"
-- error outcomes
#guard runEnc .Ctr [1, 2, 3] [] exIv == .err "ErrorDataLen"
#guard runEnc .Cbc exKey [] [1, 2, 3] == .err "ErrorBlockSize"
#guard runDec .Cbc exKey [] exIv == .err "ErrorDataLen"
#guard runDec .Cbc exKey (exData 17) exIv == .err "ErrorDataLen"
#guard runDec .Cbc exKey (exData 16) exIv == Impl.SM4.mode_decrypt .cbc exKey (exData 16) exIv
#guard Gen.SrcSM4Mode.block_add_one (Array.replicate 16 0xFF) == .ok (Array.replicate 16 0)
#guard Gen.SrcSM4Mode.block_add_one #[1, 2, 3] == .panic
