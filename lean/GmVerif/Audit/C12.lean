import GmVerif.Thm.C12
open GmVerif.Thm.C12
#print axioms abits_value
#print axioms abits_scalar
#print axioms final_exp_exponent
#print axioms final_exp_group
#print axioms easy_part_exponent
#print axioms hard_part_exponent
#print axioms chain_constants
#print axioms frobenius_constants
#print axioms frobenius_on_basis_partial
