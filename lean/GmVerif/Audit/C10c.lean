import GmVerif.Thm.C10c

#print axioms GmVerif.Thm.C10c.pairingRefines
#print axioms GmVerif.Thm.C10c.towerDense
#print axioms GmVerif.Thm.C10c.dense_pow
#print axioms GmVerif.Thm.C10c.encrypt_refines
#print axioms GmVerif.Thm.C10c.encrypt_refines_honest
#print axioms GmVerif.Thm.C10c.encrypt_ok_iff
#print axioms GmVerif.Thm.C10c.encrypt_empty
#print axioms GmVerif.Thm.C10c.decrypt_refines
#print axioms GmVerif.Thm.C10c.decrypt_exact
#print axioms GmVerif.Thm.C10c.decrypt_sound
#print axioms GmVerif.Thm.C10c.decrypt_complete
#print axioms GmVerif.Thm.C10c.decrypt_refines_none
#print axioms GmVerif.Thm.C10c.decrypt_model
#print axioms GmVerif.Thm.C10c.encrypt_then_decrypt_impl
#print axioms GmVerif.Thm.C10c.encrypt_then_decrypt_own_key
