import GmVerif.Thm.C06

#print axioms GmVerif.Thm.C06.from_byte_ok
#print axioms GmVerif.Thm.C06.from_byte_total
#print axioms GmVerif.Thm.C06.decrypt_ok_iff
#print axioms GmVerif.Thm.C06.decrypt_total
#print axioms GmVerif.Thm.C06.decrypt_truncated
#print axioms GmVerif.Thm.C06.decrypt_length
