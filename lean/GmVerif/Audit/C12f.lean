import GmVerif.Thm.C12f
open GmVerif.Thm.C12f
#print axioms key_tangent
#print axioms key_sum
#print axioms chord_on_curve
#print axioms tangent_on_curve
#print axioms step_value
#print axioms minus_step
#print axioms killed_vertical
#print axioms onTw_closed
#print axioms lineAdd_step
#print axioms lineAdd_minus
#print axioms approx_equivalence
#print axioms carry_double
#print axioms carry_minus
