import GmVerif.Thm.C02
open GmVerif.Thm.C02
#print axioms gen_consts
#print axioms sbox_length
#print axioms sbox_bijective
#print axioms ck_rule
#print axioms crypt_involution
#print axioms sm4_dec_enc
#print axioms sm4_enc_dec
#print axioms w4_bytes_roundtrip
#print axioms bytes_w4_roundtrip
#print axioms sm4_dec_enc_bytes
#print axioms sm4_enc_dec_bytes
#print axioms encBytes_length
#print axioms decBytes_length
#print axioms new_refines
#print axioms sm4_enc_refines
#print axioms sm4_dec_refines
#print axioms new_total
#print axioms encrypt_total
#print axioms decrypt_total
#print axioms sbox_algebraic
#print axioms gf_inv_spec
