import GmVerif.Thm.C19a

#print axioms GmVerif.Thm.C19a.derBiguint_eq_spec
#print axioms GmVerif.Thm.C19a.derBytes_eq_spec
#print axioms GmVerif.Thm.C19a.parse_asn1
#print axioms GmVerif.Thm.C19a.decrypt_asn1_der
#print axioms GmVerif.Thm.C19a.encrypt_asn1_der
#print axioms GmVerif.Thm.C19a.decrypt_asn1_total
