import GmVerif.Thm.C09b
open GmVerif.Thm.C09b
#print axioms tower_dense
#print axioms dense_pow
#print axioms dense_bytes
#print axioms dense_inj
#print axioms sign_no_panic'
#print axioms verify_total
#print axioms sampler_step
#print axioms accepts_range
#print axioms pairing_at_infinity
#print axioms specSignLoop_nil
#print axioms specSignLoop_cons
#print axioms specSignLoop_some
#print axioms sign_refines
#print axioms sign_first
#print axioms sign_skip
#print axioms sign_retry
#print axioms g_mul_inG2
#print axioms ex_key
#print axioms verify_refines
#print axioms verify_sound
#print axioms verify_complete
#print axioms verify_reject
#print axioms verify_refines_from_bytes
#print axioms sign_then_verify_impl
