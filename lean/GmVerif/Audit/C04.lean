import GmVerif.Thm.C04

#print axioms GmVerif.Thm.C04.verify_raw_iff
#print axioms GmVerif.Thm.C04.verify_raw_total
#print axioms GmVerif.Thm.C04.verify_total
#print axioms GmVerif.Thm.C04.verify_bad_length
#print axioms GmVerif.Thm.C04.verify_out_of_range
#print axioms GmVerif.Thm.C04.verify_sum_infinity
#print axioms GmVerif.Thm.C04.verify_unfold
