import GmVerif.Thm.C18c
open GmVerif

#print axioms GmVerif.Thm.C18c.src_eea_new_eq_impl
#print axioms GmVerif.Thm.C18c.src_eia_new_eq_impl
#print axioms GmVerif.Thm.C18c.src_eea_encrypt_eq_impl
#print axioms GmVerif.Thm.C18c.src_eea_run_eq_impl
#print axioms GmVerif.Thm.C18c.src_find_word_eq_impl
#print axioms GmVerif.Thm.C18c.src_eea_refines
#print axioms GmVerif.Thm.C18c.src_eea_short_panics

/-! running the translated code itself (compiled evaluation, not a proof): the two 3GPP test vectors of the
repo tests (`eea.rs::test_eea` = 128-EEA3 test set 1, `eia.rs::test_eia` = 128-EIA3 test set) -/
def eeaRun (ck : Array UInt8) (count bearer direction : UInt32) (msg : Array UInt32) (len : UInt32) :
    Outcome (Array UInt32) := do
  let e ← Gen.SrcEEA.EEA.new ck count bearer direction
  let p ← Gen.SrcEEA.EEA.encrypt e msg len
  pure p.1

def ck1 : Array UInt8 := #[0x17, 0x3d, 0x14, 0xba, 0x50, 0x03, 0x73, 0x1d, 0x7a, 0x60, 0x04, 0x94, 0x70, 0xf0, 0x0a, 0x29]
def ibs1 : Array UInt32 := #[0x6cf65340, 0x735552ab, 0x0c9752fa, 0x6f9025fe, 0x0bd675d9, 0x005875b2, 0x00000000]
def obs1 : Array UInt32 := #[0xa6c85fc6, 0x6afb8533, 0xaafc2518, 0xdfe78494, 0x0ee1e4b0, 0x30238cc8, 0x00000000]

#guard eeaRun ck1 0x66035492 0xf 0 ibs1 0xc1 == .ok obs1
#guard eeaRun ck1 0x66035492 0xf 0 obs1 0xc1 == .ok ibs1
-- a 6-word message for 193 bits panics (index out of range), as in Rust
#guard eeaRun ck1 0x66035492 0xf 0 (ibs1.extract 0 6) 0xc1 == .panic

def eiaRun (ik : Array UInt8) (count bearer direction : UInt32) (msg : Array UInt32) (len : UInt32) :
    Outcome UInt32 := do
  let e ← Gen.SrcEIA.EIA.new ik count bearer direction
  let p ← Gen.SrcEIA.EIA.gen_mac e msg len
  pure p.1

def ik2 : Array UInt8 := #[0xc9, 0xe6, 0xce, 0xc4, 0x60, 0x7c, 0x72, 0xdb, 0x00, 0x0a, 0xef, 0xa8, 0x83, 0x85, 0xab, 0x0a]
def m2 : Array UInt32 := #[0x983b41d4, 0x7d780c9e, 0x1ad11d7e, 0xb70391b1, 0xde0b35da, 0x2dc62f83, 0xe7b78d63,
  0x06ca0ea0, 0x7e941b7b, 0xe91348f9, 0xfcb170e2, 0x217fecd9, 0x7f9f68ad, 0xb16e5d7d,
  0x21e569d2, 0x80ed775c, 0xebde3f40, 0x93c53881, 0x00000000]

#guard eiaRun ik2 0xa94059da 0x0a 0x01 m2 0x0241 == .ok 0xfae8ff0b
-- the translated `find_word` against the model on a few shifts (also proved: src_find_word_eq_impl; gen_mac is NOT proved)
#guard (List.range 70).all fun i =>
  Gen.SrcEIA.find_word #[0x12345678, 0x9abcdef0] i == Impl.EEA.find_word [0x12345678, 0x9abcdef0] i
