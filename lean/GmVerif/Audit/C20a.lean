import GmVerif.Thm.C20a

#print axioms GmVerif.Thm.C20a.sk_new_total
#print axioms GmVerif.Thm.C20a.sk_new_ok_iff
#print axioms GmVerif.Thm.C20a.pk_new_total
#print axioms GmVerif.Thm.C20a.compute_za_total
#print axioms GmVerif.Thm.C20a.sign_raw_total
#print axioms GmVerif.Thm.C20a.encrypt_total
#print axioms GmVerif.Thm.C20a.sign_terminates_if
#print axioms GmVerif.Thm.C20a.random_u256_spec
#print axioms GmVerif.Thm.C20a.random_u256_in_range
