import GmVerif.Thm.C16
open GmVerif.Thm.C16
#print axioms mod_n_from_hash_correct
#print axioms mod_n_from_hash_correct'
#print axioms mod_n_from_hash_range'
#print axioms mod_n_from_hash_range
#print axioms mod_n_from_hash_short
#print axioms barrett_estimate
#print axioms sm3_eq
#print axioms hash1_refines
#print axioms hash2_refines
#print axioms spec_H1_alice
