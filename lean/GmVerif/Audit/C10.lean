import GmVerif.Thm.C10

#print axioms GmVerif.Thm.C10.kdf_prefix_partial
#print axioms GmVerif.Thm.C10.kdf_prefix_unbounded_false
#print axioms GmVerif.Thm.C10.kdf_zero_length
#print axioms GmVerif.Thm.C10.kdf_length
#print axioms GmVerif.Thm.C10.kdf_287_split
#print axioms GmVerif.Thm.C10.mac_refines
#print axioms GmVerif.Thm.C10.mac_panic_iff
#print axioms GmVerif.Thm.C10.decrypt_ok_iff
#print axioms GmVerif.Thm.C10.decrypt_noncanonical_c1
#print axioms GmVerif.Thm.C10.decrypt_total
#print axioms GmVerif.Thm.C10.decrypt_bad_length
#print axioms GmVerif.Thm.C10.decrypt_bad_length_kind
#print axioms GmVerif.Thm.C10.decrypt_bad_prefix
#print axioms GmVerif.Thm.C10.decrypt_off_curve
#print axioms GmVerif.Thm.C10.decrypt_off_curve_kind
#print axioms GmVerif.Thm.C10.encrypt_no_panic
#print axioms GmVerif.Thm.C10.encrypt_shape
#print axioms GmVerif.Thm.C10.encrypt_shape_spec
#print axioms GmVerif.Thm.C10.encrypt_long_not_ok
#print axioms GmVerif.Thm.C10.encrypt_long_panics

/-! ### sanity run (evaluation, not a proof): the success hypotheses of the shape theorems are inhabited -/
open GmVerif GmVerif.Impl.SM9 in
def demoC10 : Outcome String := do
  let c7 : List UInt8 := List.replicate 31 0 ++ [7]
  let c9 : List UInt8 := List.replicate 31 0 ++ [9]
  let mk ← enc_master_key_generate [c7]
  let some key ← mk.val.extract_key [0x42] | .err "nokey"
  let ct ← mk.val.encrypt [0x42] [1, 2, 3] [c9]
  let pt ← key.decrypt [0x42] ct.val
  return s!"|C| = {ct.val.length}, decrypts to {pt}, scalars used {ct.used}"

/-- info: GmVerif.Outcome.ok "|C| = 100, decrypts to [1, 2, 3], scalars used [9]" -/
#guard_msgs in
#eval demoC10
