import GmVerif.Thm.C05b

#print axioms GmVerif.Thm.C05b.sm2_curve_card
#print axioms GmVerif.Thm.C05b.sm2_every_point_order_n
#print axioms GmVerif.Thm.C05b.sm2_mul_ne_none_all
#print axioms GmVerif.Thm.C05b.sm2_onCurve_iff_mul_G
#print axioms GmVerif.Thm.C05b.sm9_g1_curve_card
#print axioms GmVerif.Thm.C05b.sm9_g1_every_point_order_N
#print axioms GmVerif.Thm.C05b.sm9_g1_mul_ne_none_all
#print axioms GmVerif.Thm.C05b.sm9_onCurve_mul_N
#print axioms GmVerif.Thm.C05b.sm9_onCurve_iff_inG1
#print axioms GmVerif.Thm.C05b.decrypt_refines_none_full
#print axioms GmVerif.Thm.C05b.exCtBad_spec
#print axioms GmVerif.Thm.C05b.decrypt_refines_iff
#print axioms GmVerif.Thm.C05b.decrypt_refines_err_iff
