import GmVerif.Thm.C07b
open GmVerif.Thm.C07b

#print axioms mode_encrypt_eq
#print axioms mode_decrypt_eq
#print axioms object_unchanged
#print axioms mode_history_independent
#print axioms mode_history_at
