import GmVerif.Thm.C18

#print axioms GmVerif.Thm.C18.eea_iv
#print axioms GmVerif.Thm.C18.eia_iv
#print axioms GmVerif.Thm.C18.iv_length
#print axioms GmVerif.Thm.C18.find_word_bits
#print axioms GmVerif.Thm.C18.eea_refines
#print axioms GmVerif.Thm.C18.eea_length
#print axioms GmVerif.Thm.C18.eea_spec_length
#print axioms GmVerif.Thm.C18.eea_involution
#print axioms GmVerif.Thm.C18.eea_involution_impl
#print axioms GmVerif.Thm.C18.eia_refines
#print axioms GmVerif.Thm.C18.eia_depends_only
#print axioms GmVerif.Thm.C18.eea_depends_only
#print axioms GmVerif.Thm.C18.eea_no_panic
#print axioms GmVerif.Thm.C18.eea_short_panics
#print axioms GmVerif.Thm.C18.eia_no_panic
#print axioms GmVerif.Thm.C18.eia_short_panics
#print axioms GmVerif.Thm.C18.H
