import GmVerif.Thm.C12b
open GmVerif.Thm.C12b
#print axioms sample_canon
#print axioms scalar2_canon
#print axioms frobenius_constants_field
#print axioms pow_p_pow_tower
#print axioms frobenius_tower
#print axioms frobenius_correct
#print axioms frobenius_spec
#print axioms frobenius2_correct
#print axioms frobenius3_correct
#print axioms frobenius6_correct
#print axioms frobenius_iterates
#print axioms final_exponent_tower
#print axioms final_exponent_correct
#print axioms final_exponent_zero
#print axioms pairing_split
#print axioms pairingRefines_of_miller
#print axioms millerRefines_iff
#print axioms miller_arguments_exist
#print axioms spec_fp12_field
#print axioms subfield_killed
#print axioms fp6_killed
