import GmVerif.Thm.C02d
open GmVerif

#print axioms GmVerif.Thm.C02d.src_chk_consts
#print axioms GmVerif.Thm.C02d.src_chk_leaf_eq_impl
#print axioms GmVerif.Thm.C02d.src_chk_encrypt_eq_impl
#print axioms GmVerif.Thm.C02d.src_chk_decrypt_eq_impl
#print axioms GmVerif.Thm.C02d.src_chk_new_eq_impl
#print axioms GmVerif.Thm.C02d.src_chk_new_refines
#print axioms GmVerif.Thm.C02d.src_chk_sm4_enc_refines
#print axioms GmVerif.Thm.C02d.src_chk_sm4_dec_refines

/-! running the translated code itself (compiled evaluation, not a proof): GB/T 32907-2016 Annex A.1 -/
def a1KeyChk : Array UInt8 :=
  #[0x01, 0x23, 0x45, 0x67, 0x89, 0xab, 0xcd, 0xef, 0xfe, 0xdc, 0xba, 0x98, 0x76, 0x54, 0x32, 0x10]
#guard (do let c ← Gen.SrcSM4Chk.Sm4Cipher.new a1KeyChk
           let e ← c.encrypt a1KeyChk
           pure (hexOfBytes e.toList) : Outcome String) == .ok "681edf34d206965e86b3e94f536e4246"
#guard (do let c ← Gen.SrcSM4Chk.Sm4Cipher.new a1KeyChk
           let e ← c.encrypt a1KeyChk
           let d ← c.decrypt e
           pure (hexOfBytes d.toList) : Outcome String) == .ok "0123456789abcdeffedcba9876543210"
#guard (Gen.SrcSM4Chk.Sm4Cipher.new #[1, 2, 3]).map (fun c => c.rk.size) == .err "ErrorDataLen"
