import GmVerif.Thm.C05a

#print axioms GmVerif.Thm.C05a.sm3_eq
#print axioms GmVerif.Thm.C05a.kdf_prefix
#print axioms GmVerif.Thm.C05a.kdf_length
#print axioms GmVerif.Thm.C05a.spec_kdf_prefix
#print axioms GmVerif.Thm.C05a.kdf_zero
