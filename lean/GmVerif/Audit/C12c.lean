import GmVerif.Thm.C12c
open GmVerif.Thm.C12c
#print axioms millerPart_unfold
#print axioms tangent_canon
#print axioms line_canon
#print axioms line_no_pre_canon
#print axioms endpoints_canon
#print axioms to_affine_canon
#print axioms millerPart_canon
#print axioms miller_canon
#print axioms millerRefines_iff_value
#print axioms millerRefines_iff_pairingRefines
#print axioms spec_inv_correct
#print axioms line_mul_is_mul
#print axioms arguments_rep
#print axioms tangent_step
#print axioms tangent_side_condition
#print axioms chord_step
#print axioms pairing_pre_for
#print axioms chord_no_pre_step
#print axioms frobenius_endpoints
#print axioms model_miller_sd
#print axioms millerRefines_of_chainIndependent
#print axioms pairingRefines_of_chainIndependent
