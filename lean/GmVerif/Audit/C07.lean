import GmVerif.Thm.C07
open GmVerif.Thm.C07
#print axioms add_one
#print axioms add_one_value
#print axioms ctr_refines
#print axioms ofb_refines
#print axioms cfb_enc_refines
#print axioms cfb_dec_refines
#print axioms ctr_dec_refines
#print axioms ofb_dec_refines
#print axioms cbc_enc_refines
#print axioms cbc_dec_refines
#print axioms cbc_dec_err
#print axioms iv_len_err
#print axioms key_len_err
#print axioms mode_total
#print axioms spec_ctr_round_trip
#print axioms spec_ofb_round_trip
#print axioms spec_cfb_round_trip
#print axioms spec_cbc_round_trip
#print axioms ctr_round_trip
#print axioms ofb_round_trip
#print axioms cfb_round_trip
#print axioms cbc_round_trip
#print axioms stream_length
#print axioms cbc_length
