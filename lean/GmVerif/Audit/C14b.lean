import GmVerif.Thm.C14b
open GmVerif.Thm.C14b
#print axioms sm9_random_spec
#print axioms sm9_random_in_range
#print axioms sm9_random_consumes_prefix
