import GmVerif.Thm.Primes
open GmVerif.Thm.Primes
#print axioms sm2_p_prime
#print axioms sm2_n_prime
#print axioms sm9_p_prime
#print axioms sm9_N_prime
#print axioms sm2_p_eq
#print axioms sm2_n_eq
#print axioms sm2_p_mod4
#print axioms sm9_p_mod
#print axioms fermat_inv
#print axioms powMod_eq
#print axioms invMod_correct
#print axioms sqrt_3mod4
