//! Correspondence harness: calls the real gm-rs code in-process.
//!   harness dump            -> constants, one `name v v v ...` line each (hex)
//!   harness run  < ops      -> one result line per op line
use std::io::{BufRead, Write};
use std::panic::{catch_unwind, AssertUnwindSafe};

mod sym;
mod sm2;
mod sm9;

pub fn unhex(s: &str) -> Vec<u8> {
    if s == "-" {
        Vec::new()
    } else {
        hex::decode(s).expect("bad hex in op line")
    }
}
pub fn hx(b: &[u8]) -> String {
    if b.is_empty() {
        "-".to_string()
    } else {
        hex::encode(b)
    }
}

/// Outcome of one call of the real code.
pub enum Out {
    Ok(String),
    Err(String),
}

fn run_line(line: &str) -> String {
    let toks: Vec<&str> = line.split_whitespace().collect();
    if toks.is_empty() {
        return "SKIP".into();
    }
    let r = catch_unwind(AssertUnwindSafe(|| dispatch(&toks)));
    match r {
        Ok(Some(Out::Ok(s))) => {
            if s.is_empty() {
                "OK".into()
            } else {
                format!("OK {}", s)
            }
        }
        Ok(Some(Out::Err(k))) => format!("ERR {}", k),
        Ok(None) => "BADOP".into(),
        Err(_) => "PANIC".into(),
    }
}

fn dispatch(t: &[&str]) -> Option<Out> {
    if let Some(o) = sym::dispatch(t) {
        return Some(o);
    }
    if let Some(o) = sm2::dispatch(t) {
        return Some(o);
    }
    if let Some(o) = sm9::dispatch(t) {
        return Some(o);
    }
    None
}

fn main() {
    let args: Vec<String> = std::env::args().collect();
    std::panic::set_hook(Box::new(|_| {}));
    match args.get(1).map(|s| s.as_str()) {
        Some("dump") => {
            sym::dump();
            sm2::dump();
            sm9::dump();
        }
        Some("run") => {
            let stdin = std::io::stdin();
            let stdout = std::io::stdout();
            let mut out = std::io::BufWriter::new(stdout.lock());
            for line in stdin.lock().lines() {
                let line = line.unwrap();
                let r = run_line(&line);
                writeln!(out, "{}", r).unwrap();
            }
            out.flush().unwrap();
        }
        _ => {
            eprintln!("usage: harness dump | run");
            std::process::exit(2);
        }
    }
}
