//! Correspondence harness: calls the real gm-rs code in-process.
//!   harness dump            -> constants, one `name v v v ...` line each (hex)
//!   harness run  < ops      -> one result line per op line
use std::io::{BufRead, Write};
use std::panic::{catch_unwind, AssertUnwindSafe};

mod sym;
mod sm2;
mod sm9;

pub fn unhex(s: &str) -> Vec<u8> {
    if s == "-" {
        Vec::new()
    } else {
        hex::decode(s).expect("bad hex in op line")
    }
}
pub fn hx(b: &[u8]) -> String {
    if b.is_empty() {
        "-".to_string()
    } else {
        hex::encode(b)
    }
}

/// Outcome of one call of the real code.
pub enum Out {
    Ok(String),
    Err(String),
}

fn run_line_inner(line: &str) -> String {
    let toks: Vec<&str> = line.split_whitespace().collect();
    if toks.is_empty() {
        return "SKIP".into();
    }
    let r = catch_unwind(AssertUnwindSafe(|| dispatch(&toks)));
    match r {
        Ok(Some(Out::Ok(s))) => {
            if s.is_empty() {
                "OK".into()
            } else {
                format!("OK {}", s)
            }
        }
        Ok(Some(Out::Err(k))) => format!("ERR {}", k),
        Ok(None) => "BADOP".into(),
        Err(_) => "PANIC".into(),
    }
}

/// every op runs on its own thread under a watchdog: an op that does not return within the limit is reported as
/// `HANG` (its thread is abandoned and dies with the process)
fn run_line(line: &str, limit: std::time::Duration) -> String {
    let (tx, rx) = std::sync::mpsc::channel();
    let owned = line.to_string();
    let builder = std::thread::Builder::new().stack_size(64 * 1024 * 1024);
    let h = builder.spawn(move || {
        let r = run_line_inner(&owned);
        let _ = tx.send(r);
    });
    if h.is_err() {
        return "CRASH".into();
    }
    match rx.recv_timeout(limit) {
        Ok(r) => r,
        Err(_) => "HANG".into(),
    }
}

/// `seq <op> a1 a2 ; b1 b2 ; ...`: the calls `<op> a1 a2`, `<op> b1 b2`, ... one after another on THIS thread
/// (hidden per-thread or global state between calls would show); results joined by " | "
fn seq(t: &[&str]) -> Option<Out> {
    let op = *t.get(1)?;
    let mut outs = vec![];
    for g in t[2..].split(|x| *x == ";") {
        let mut call = vec![op];
        call.extend_from_slice(g);
        let r = catch_unwind(AssertUnwindSafe(|| dispatch(&call)));
        outs.push(match r {
            Ok(Some(Out::Ok(s))) => if s.is_empty() { "OK".to_string() } else { s },
            Ok(Some(Out::Err(k))) => format!("ERR:{}", k.replace(' ', "_")),
            Ok(None) => return None,
            Err(_) => "PANIC".to_string(),
        });
    }
    Some(Out::Ok(outs.join(" | ")))
}

fn dispatch(t: &[&str]) -> Option<Out> {
    if t[0] == "seq" {
        return seq(t);
    }
    if let Some(o) = sym::dispatch(t) {
        return Some(o);
    }
    if let Some(o) = sm2::dispatch(t) {
        return Some(o);
    }
    if let Some(o) = sm9::dispatch(t) {
        return Some(o);
    }
    None
}

fn main() {
    let args: Vec<String> = std::env::args().collect();
    std::panic::set_hook(Box::new(|_| {}));
    match args.get(1).map(|s| s.as_str()) {
        Some("dump") => {
            sym::dump();
            sm2::dump();
            sm9::dump();
        }
        Some("run") => {
            let stdin = std::io::stdin();
            let stdout = std::io::stdout();
            let mut out = std::io::BufWriter::new(stdout.lock());
            let secs: u64 = std::env::var("VERIF_OP_TIMEOUT").ok().and_then(|v| v.parse().ok()).unwrap_or(60);
            let limit = std::time::Duration::from_secs(secs);
            for line in stdin.lock().lines() {
                let line = line.unwrap();
                // the 2^32-bit EIA3 op needs minutes in this checked build
                let lim = if line.starts_with("eia_big") { std::time::Duration::from_secs(secs.max(1800)) } else { limit };
                let r = run_line(&line, lim);
                writeln!(out, "{}", r).unwrap();
            }
            out.flush().unwrap();
            drop(out);
            // abandoned (hung) worker threads must not keep the process alive
            std::process::exit(0);
        }
        _ => {
            eprintln!("usage: harness dump | run");
            std::process::exit(2);
        }
    }
}
