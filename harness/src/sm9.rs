//! SM9 ops: mod-N arithmetic, Fp/Fp2/Fp4/Fp12 tower, G1/G2, pairing, hash-to-range, KDF/MAC, sign/verify,
//! encrypt/decrypt, key exchange. Field values travel as raw Montgomery limbs (32-byte big-endian hex each);
//! tower elements are comma-separated in the order c0..; verdict outputs are canonical `to_bytes_be` hex.
use crate::{hx, unhex, Out};
use gm_sm9::fields::fp::{fp_from_mont, fp_to_mont};
use gm_sm9::fields::FieldElement;
use gm_sm9::fields::{mod_n_add, mod_n_from_hash, mod_n_inv, mod_n_mul, mod_n_pow, mod_n_sub};
use gm_sm9::key::{Sm9EncKey, Sm9EncMasterKey, Sm9SignKey, Sm9SignMasterKey};
use gm_sm9::points::{Point, TwistPoint};
use gm_sm9::u256::{u256_from_be_bytes, u256_to_be_bytes, U256};
use gm_sm9::verif_hooks as vh;
use gm_sm9::verif_hooks::{Fp12, Fp2, Fp4};

fn u(s: &str) -> U256 {
    let b = unhex(s);
    assert!(b.len() == 32, "u256 arg must be 32 bytes");
    u256_from_be_bytes(&b)
}
fn h(a: &U256) -> String {
    hex::encode(u256_to_be_bytes(a))
}
fn us(s: &str) -> Vec<U256> {
    s.split(',').map(u).collect()
}
fn fp2_of(v: &[U256]) -> Fp2 {
    vh::fp2(v[0], v[1])
}
fn fp4_of(v: &[U256]) -> Fp4 {
    vh::fp4(fp2_of(&v[0..2]), fp2_of(&v[2..4]))
}
fn fp12_of(v: &[U256]) -> Fp12 {
    vh::fp12(fp4_of(&v[0..4]), fp4_of(&v[4..8]), fp4_of(&v[8..12]))
}
fn p_fp2(s: &str) -> Fp2 {
    fp2_of(&us(s))
}
fn p_fp4(s: &str) -> Fp4 {
    fp4_of(&us(s))
}
fn p_fp12(s: &str) -> Fp12 {
    fp12_of(&us(s))
}
fn raw2(a: &Fp2) -> String {
    let p = vh::fp2_parts(a);
    format!("{},{}", h(&p[0]), h(&p[1]))
}
fn raw4(a: &Fp4) -> String {
    let p = vh::fp4_parts(a);
    format!("{},{}", raw2(&p[0]), raw2(&p[1]))
}
fn raw12(a: &Fp12) -> String {
    let p = vh::fp12_parts(a);
    format!("{},{},{}", raw4(&p[0]), raw4(&p[1]), raw4(&p[2]))
}
/// "x:y:z" raw
fn g1(s: &str) -> Point {
    let v: Vec<&str> = s.split(':').collect();
    Point { x: u(v[0]), y: u(v[1]), z: u(v[2]) }
}
fn g1raw(p: &Point) -> String {
    format!("{}:{}:{}", h(&p.x), h(&p.y), h(&p.z))
}
fn g1aff(p: &Point) -> String {
    if p.is_zero() {
        "inf".into()
    } else {
        let a = p.to_affine_point();
        format!("{},{}", h(&fp_from_mont(&a.x)), h(&fp_from_mont(&a.y)))
    }
}
/// "x0,x1:y0,y1:z0,z1" raw
fn g2(s: &str) -> TwistPoint {
    let v: Vec<&str> = s.split(':').collect();
    TwistPoint { x: p_fp2(v[0]), y: p_fp2(v[1]), z: p_fp2(v[2]) }
}
fn g2raw(p: &TwistPoint) -> String {
    format!("{}:{}:{}", raw2(&p.x), raw2(&p.y), raw2(&p.z))
}
/// canonical affine "x0,x1;y0,y1" (x0 = coefficient of 1, x1 of u) or "inf"
fn g2aff(p: &TwistPoint) -> String {
    if p.z.is_zero() {
        "inf".into()
    } else {
        let zi = p.z.fp_inv();
        let zi2 = zi.fp_sqr();
        let x = p.x.fp_mul(&zi2);
        let y = p.y.fp_mul(&zi2).fp_mul(&zi);
        let c = |a: &Fp2| {
            let q = vh::fp2_parts(a);
            format!("{},{}", h(&fp_from_mont(&q[0])), h(&fp_from_mont(&q[1])))
        };
        format!("{};{}", c(&x), c(&y))
    }
}
fn push_cands(s: &str) {
    vh::clear();
    if s != "-" && s != "none" {
        for c in s.split(',') {
            let b = unhex(c);
            let mut a = [0u8; 32];
            a.copy_from_slice(&b);
            vh::push_candidate(a);
        }
    }
}
fn log_str() -> String {
    let l = vh::take_log();
    let left = vh::queued();
    vh::clear();
    format!("used={} left={}", if l.is_empty() { "-".to_string() } else { l.iter().map(h).collect::<Vec<_>>().join(",") }, left)
}
fn sign_master(ks: &str) -> Sm9SignMasterKey {
    let ks = u(ks);
    Sm9SignMasterKey { ks, ppubs: TwistPoint::g_mul(&ks) }
}
/// `aff:<ke>`: the master public key is held in affine form (Z = 1), as after decoding it from octets;
/// otherwise it is the Jacobian output of `g_mul`
fn enc_master(ke: &str) -> Sm9EncMasterKey {
    if let Some(k) = ke.strip_prefix("aff:") {
        let ke = u(k);
        return Sm9EncMasterKey { ke, ppube: Point::g_mul(&ke).to_affine_point() };
    }
    let ke = u(ke);
    Sm9EncMasterKey { ke, ppube: Point::g_mul(&ke) }
}

pub fn dump() {
    for (n, v) in vh::consts() {
        println!("sm9.{} {}", n, h(&v));
    }
    let mu = vh::barrett_mu();
    println!("sm9.N_BARRETT_MU {}", (0..5).rev().map(|i| format!("{:016x}", mu[i])).collect::<String>());
    println!("sm9.HID {}", vh::hid().iter().map(|b| format!("{:02x}", b)).collect::<Vec<_>>().join(" "));
    for (i, row) in vh::precomputed().iter().enumerate() {
        println!("sm9.TABLE.{} {}", i, row.iter().map(h).collect::<Vec<_>>().join(" "));
    }
}

fn fp2_op(op: &str, a: &Fp2, b: Option<&Fp2>) -> Fp2 {
    let z = Fp2::zero();
    let b = b.unwrap_or(&z);
    match op {
        "add" => a.fp_add(b), "sub" => a.fp_sub(b), "mul" => a.fp_mul(b), "sqr" => a.fp_sqr(), "neg" => a.fp_neg(),
        "dbl" => a.fp_double(), "tri" => a.fp_triple(), "div2" => a.fp_div2(), "inv" => a.fp_inv(),
        o => vh::fp2_ops(o, a, b),
    }
}
fn fp4_op(op: &str, a: &Fp4, b: Option<&Fp4>) -> Fp4 {
    let z = Fp4::zero();
    let b = b.unwrap_or(&z);
    match op {
        "add" => a.fp_add(b), "sub" => a.fp_sub(b), "mul" => a.fp_mul(b), "sqr" => a.fp_sqr(), "neg" => a.fp_neg(),
        "dbl" => a.fp_double(), "tri" => a.fp_triple(), "div2" => a.fp_div2(), "inv" => a.fp_inv(),
        o => vh::fp4_ops(o, a, b),
    }
}

pub fn dispatch(t: &[&str]) -> Option<Out> {
    Some(match t[0] {
        // ---- limb level (gm-sm9/src/u256.rs; same code as gm-sm2's, modelled by Impl.Limb)
        "s9u256" => {
            let a = u(t[2]);
            let b = u(t[3]);
            match t[1] {
                "add" => { let (r, c) = gm_sm9::u256::u256_add(&a, &b); Out::Ok(format!("{} {}", h(&r), c as u8)) }
                "sub" => { let (r, c) = gm_sm9::u256::u256_sub(&a, &b); Out::Ok(format!("{} {}", h(&r), c as u8)) }
                "mul" => { let r = gm_sm9::u256::u256_mul(&a, &b); Out::Ok((0..8).rev().map(|i| format!("{:016x}", r[i])).collect::<String>()) }
                "cmp" => Out::Ok(format!("{}", gm_sm9::u256::u256_cmp(&a, &b))),
                _ => return None,
            }
        }
        // ---- arithmetic modulo the group order N (public functions)
        "n_add" => Out::Ok(h(&mod_n_add(&u(t[1]), &u(t[2])))),
        "n_sub" => Out::Ok(h(&mod_n_sub(&u(t[1]), &u(t[2])))),
        "n_mul" => Out::Ok(h(&mod_n_mul(&u(t[1]), &u(t[2])))),
        "n_pow" => Out::Ok(h(&mod_n_pow(&u(t[1]), &u(t[2])))),
        "n_inv" => Out::Ok(h(&mod_n_inv(&u(t[1])))),
        "n_from_hash" => Out::Ok(h(&mod_n_from_hash(&unhex(t[1])))),
        // ---- Fp (raw Montgomery limbs)
        "s9fp" => {
            let a = u(t[2]);
            let b = if t.len() > 3 { u(t[3]) } else { [0; 4] };
            let r = match t[1] {
                "mul" => a.fp_mul(&b), "add" => a.fp_add(&b), "sub" => a.fp_sub(&b), "neg" => a.fp_neg(), "dbl" => a.fp_double(),
                "tri" => a.fp_triple(), "div2" => a.fp_div2(), "sqr" => a.fp_sqr(), "inv" => a.fp_inv(), "pow" => vh::fp_pow(&a, &b),
                "to_mont" => fp_to_mont(&a), "from_mont" => fp_from_mont(&a),
                _ => return None,
            };
            Out::Ok(h(&r))
        }
        // s9fp2 <op> a [b] -> raw result
        "s9fp2" => {
            let a = p_fp2(t[2]);
            let b = if t.len() > 3 { Some(p_fp2(t[3])) } else { None };
            Out::Ok(raw2(&fp2_op(t[1], &a, b.as_ref())))
        }
        "s9fp4" => {
            let a = p_fp4(t[2]);
            let b = if t.len() > 3 { Some(p_fp4(t[3])) } else { None };
            Out::Ok(raw4(&fp4_op(t[1], &a, b.as_ref())))
        }
        // s9fp12 <op> a [b | e | lw0;lw1;lw2]
        "s9fp12" => {
            let a = p_fp12(t[2]);
            let r = match t[1] {
                "add" => a.fp_add(&p_fp12(t[3])), "sub" => a.fp_sub(&p_fp12(t[3])), "mul" => a.fp_mul(&p_fp12(t[3])),
                "sqr" => a.fp_sqr(), "neg" => a.fp_neg(), "dbl" => a.fp_double(), "tri" => a.fp_triple(), "div2" => a.fp_div2(),
                "inv" => a.fp_inv(),
                "pow" => vh::fp12_ops("pow", &a, &u(t[3]), &[Fp2::zero(); 3]),
                "line_mul" => {
                    let l: Vec<Fp2> = t[3].split(';').map(p_fp2).collect();
                    vh::fp12_ops("line_mul", &a, &[0; 4], &[l[0], l[1], l[2]])
                }
                o => vh::fp12_ops(o, &a, &[0; 4], &[Fp2::zero(); 3]),
            };
            Out::Ok(raw12(&r))
        }
        // canonical 384-byte encoding of a raw Fp12
        "s9fp12_bytes" => Out::Ok(hx(&p_fp12(t[1]).to_bytes_be())),
        // ---- G1: verdict = affine canonical; *_raw = stored Jacobian limbs
        "g1" | "g1_raw" => {
            let raw = t[0] == "g1_raw";
            let show = |p: &Point| if raw { g1raw(p) } else { g1aff(p) };
            match t[1] {
                "add" => Out::Ok(show(&g1(t[2]).point_add(&g1(t[3])))),
                "sub" => Out::Ok(show(&g1(t[2]).point_sub(&g1(t[3])))),
                "dbl" => Out::Ok(show(&g1(t[2]).point_double())),
                "neg" => Out::Ok(show(&g1(t[2]).point_neg())),
                "mul" => Out::Ok(show(&g1(t[2]).point_mul(&u(t[3])))),
                "gmul" => Out::Ok(show(&Point::g_mul(&u(t[2])))),
                "affine" => Out::Ok(g1raw(&g1(t[2]).to_affine_point())),
                "eq" => Out::Ok(format!("{}", g1(t[2]).point_equals(&g1(t[3])))),
                "oncurve" => Out::Ok(format!("{}", g1(t[2]).is_on_curve())),
                "bytes" => Out::Ok(hx(&g1(t[2]).to_bytes_be())),
                "from_bytes" => Out::Ok(g1raw(&vh::point_from_bytes(&unhex(t[2])))),
                _ => return None,
            }
        }
        "g2" | "g2_raw" => {
            let raw = t[0] == "g2_raw";
            let show = |p: &TwistPoint| if raw { g2raw(p) } else { g2aff(p) };
            match t[1] {
                "add" => Out::Ok(show(&g2(t[2]).point_add(&g2(t[3])))),
                "addfull" => Out::Ok(show(&vh::twist_add_full(&g2(t[2]), &g2(t[3])))),
                "sub" => Out::Ok(show(&g2(t[2]).point_sub(&g2(t[3])))),
                "dbl" => Out::Ok(show(&g2(t[2]).point_double())),
                "neg" => Out::Ok(show(&g2(t[2]).point_neg())),
                "mul" => Out::Ok(show(&g2(t[2]).point_mul(&u(t[3])))),
                "gmul" => Out::Ok(show(&TwistPoint::g_mul(&u(t[2])))),
                "pi1" => Out::Ok(show(&vh::point_pi1(&g2(t[2])))),
                "negpi2" => Out::Ok(show(&vh::point_neg_pi2(&g2(t[2])))),
                _ => return None,
            }
        }
        // g2eq P Q [negate] : point_equals(P, Q) or point_equals(P, -Q)
        "g2eq" => {
            let p = g2(t[1]);
            let mut q = g2(t[2]);
            if t.len() > 3 && t[3] == "negate" {
                q = q.point_neg();
            }
            Out::Ok(format!("{}", p.point_equals(&q)))
        }
        "booth" => {
            let k = u(t[1]);
            Out::Ok(format!("{}", gm_sm9::u256::sm9_u256_get_booth(&k, t[2].parse().unwrap(), t[3].parse().unwrap())))
        }
        // pairing <Q raw> <P raw> -> 384 bytes
        "pairing" => Out::Ok(hx(&vh::pairing(&g2(t[1]), &g1(t[2])).to_bytes_be())),
        "pairing_raw" => Out::Ok(raw12(&vh::pairing(&g2(t[1]), &g1(t[2])))),
        // ---- helpers
        "s9_hash1" => Out::Ok(h(&gm_sm9::key::verif_key_hooks::hash1(&unhex(t[1]), u8::from_str_radix(t[2], 16).unwrap()))),
        "s9_hash2" => Out::Ok(h(&gm_sm9::key::verif_key_hooks::hash2(&unhex(t[1]), &unhex(t[2])))),
        "s9_kdf" => Out::Ok(hx(&gm_sm9::key::verif_key_hooks::kdf(&unhex(t[1]), t[2].parse().unwrap()))),
        "s9_kdf_block" => { let b: usize = t[2].parse().unwrap(); let k = gm_sm9::key::verif_key_hooks::kdf(&unhex(t[1]), 32 * b); Out::Ok(hx(&k[32 * (b - 1)..])) }
        "s9_mac" => Out::Ok(hx(&gm_sm9::key::verif_key_hooks::mac(&unhex(t[1]), &unhex(t[2])))),
        // s9_extract sign|enc|exch <k> <id>
        "s9_extract" => match t[1] {
            "sign" => match sign_master(t[2]).extract_key(&unhex(t[3])) {
                Some(k) => Out::Ok(hx(&k.ds.to_bytes_be())),
                None => Out::Err("None".into()),
            },
            "enc" => match enc_master(t[2]).extract_key(&unhex(t[3])) {
                Some(k) => Out::Ok(g2aff(&k.de)),
                None => Out::Err("None".into()),
            },
            _ => match enc_master(t[2]).extract_exch_key(&unhex(t[3])) {
                Some(k) => Out::Ok(g2aff(&k.de)),
                None => Out::Err("None".into()),
            },
        },
        // s9_extract_none sign|enc|exch <id> : master key crafted as k = N - H1(id||hid), extraction must report failure
        "s9_extract_none" => {
            let hid = vh::hid();
            let (hidb, kind) = match t[1] { "sign" => (hid[0], 0), "enc" => (hid[2], 1), _ => (hid[1], 2) };
            let h1 = gm_sm9::key::verif_key_hooks::hash1(&unhex(t[2]), hidb);
            let nn = u("b640000002a3a6f1d603ab4ff58ec74449f2934b18ea8beee56ee19cd69ecf25");
            let k = mod_n_sub(&nn, &h1);
            let ks = h(&k);
            let none = match kind {
                0 => sign_master(&ks).extract_key(&unhex(t[2])).is_none(),
                1 => enc_master(&ks).extract_key(&unhex(t[2])).is_none(),
                _ => enc_master(&ks).extract_exch_key(&unhex(t[2])).is_none(),
            };
            if none { Out::Err("None".into()) } else { Out::Ok("extracted".into()) }
        }
        // s9_bilin <a> <b> : e([b]P1, [a]P2) == e(P1, P2)^(ab mod N), e(P1,P2)^N == 1, e(P1,P2) != 1 evaluated inside the library
        "s9_bilin" => {
            let a = u(t[1]);
            let b = u(t[2]);
            let p1 = Point::g_mul(&[1, 0, 0, 0]);
            let p2 = TwistPoint::g_mul(&[1, 0, 0, 0]);
            let g = vh::pairing(&p2, &p1);
            let lhs = vh::pairing(&TwistPoint::g_mul(&a), &Point::g_mul(&b));
            let ab = mod_n_mul(&mod_n_add(&a, &[0; 4]), &mod_n_add(&b, &[0; 4]));
            // pow asserts e <= N-1; ab mod N is in range
            let rhs = vh::fp12_ops("pow", &g, &ab, &[Fp2::zero(); 3]);
            let nm1 = u("b640000002a3a6f1d603ab4ff58ec74449f2934b18ea8beee56ee19cd69ecf24");
            let gn = vh::fp12_ops("pow", &g, &nm1, &[Fp2::zero(); 3]).fp_mul(&g);
            let one = Fp12::one();
            Out::Ok(format!("bilinear={} order={} nondegenerate={}", lhs == rhs, gn == one, g != one))
        }
        // s9_sign <ks> <id> <msg> <cands> -> h S(65 bytes) used=..
        "s9_sign" => {
            let key = match sign_master(t[1]).extract_key(&unhex(t[2])) { Some(k) => k, None => return Some(Out::Err("None".into())) };
            push_cands(t[4]);
            let r = key.sign(&unhex(t[3]));
            let l = log_str();
            match r {
                Ok((hh, s)) => Out::Ok(format!("{} {} {}", h(&hh), hx(&s.to_bytes_be()), l)),
                Err(_) => Out::Err("Sign".into()),
            }
        }
        // s9_verify <ks> <id> <msg> <h> <S 65 bytes>
        "s9_verify" => {
            let m = sign_master(t[1]);
            let s = vh::point_from_bytes(&unhex(t[5]));
            match m.verify_sign(&unhex(t[2]), &unhex(t[3]), &u(t[4]), &s) {
                Ok(()) => Out::Ok(String::new()),
                Err(_) => Out::Err("Verify".into()),
            }
        }
        // s9_verify_raw <ks> <id> <msg> <h> <S raw Jacobian> (S given as stored limbs: any z)
        "s9_verify_raw" => {
            let m = sign_master(t[1]);
            match m.verify_sign(&unhex(t[2]), &unhex(t[3]), &u(t[4]), &g1(t[5])) {
                Ok(()) => Out::Ok(String::new()),
                Err(_) => Out::Err("Verify".into()),
            }
        }
        // s9_sv <ks> <id> <msg> <cands> [tamper kind arg] : sign, optionally alter (h,S bytes), verify
        "s9_sv" => {
            let m = sign_master(t[1]);
            let key = match m.extract_key(&unhex(t[2])) { Some(k) => k, None => return Some(Out::Err("None".into())) };
            push_cands(t[4]);
            let r = key.sign(&unhex(t[3]));
            vh::clear();
            let (hh, s) = match r { Ok(x) => x, Err(_) => return Some(Out::Err("Sign".into())) };
            let mut sig = u256_to_be_bytes(&hh);
            sig.extend_from_slice(&s.to_bytes_be());
            let mut msg = unhex(t[3]);
            let mut id = unhex(t[2]);
            if t.len() > 5 {
                match t[5] {
                    "flip" => { let b: usize = t[6].parse().unwrap(); sig[b / 8] ^= 0x80 >> (b % 8); }
                    "msg" => { msg.push(0x21); }
                    "id" => { id.push(0x21); }
                    "h" => { let v = unhex(t[6]); sig[..32].copy_from_slice(&v); }
                    "s" => { let v = unhex(t[6]); sig[32..].copy_from_slice(&v); }
                    _ => panic!("bad tamper"),
                }
            }
            let h2 = u256_from_be_bytes(&sig[..32]);
            let s2 = vh::point_from_bytes(&sig[32..]);
            match m.verify_sign(&id, &msg, &h2, &s2) {
                Ok(()) => Out::Ok("verified".into()),
                Err(_) => Out::Err("Verify".into()),
            }
        }
        // s9_enc <ke> <id> <msg> <cands>
        "s9_enc" => {
            let m = enc_master(t[1]);
            push_cands(t[4]);
            let c = m.encrypt(&unhex(t[2]), &unhex(t[3]));
            let l = log_str();
            Out::Ok(format!("{} {}", hx(&c), l))
        }
        // s9_dec <ke> <id of the key> <id passed to decrypt> <ct>
        "s9_dec" => {
            let m = enc_master(t[1]);
            let key: Sm9EncKey = match m.extract_key(&unhex(t[2])) { Some(k) => k, None => return Some(Out::Err("None".into())) };
            match key.decrypt(&unhex(t[3]), &unhex(t[4])) {
                Ok(p) => Out::Ok(hx(&p)),
                Err(_) => Out::Err("Decrypt".into()),
            }
        }
        // s9_tamper <ke> <id> <msg> <cands> <kind> <arg> : encrypt, alter, decrypt with the identity's key
        "s9_tamper" => {
            let m = enc_master(t[1]);
            let id = unhex(t[2]);
            let key: Sm9EncKey = match m.extract_key(&id) { Some(k) => k, None => return Some(Out::Err("None".into())) };
            push_cands(t[4]);
            let mut ct = m.encrypt(&id, &unhex(t[3]));
            vh::clear();
            let mut did = id.clone();
            match t[5] {
                "none" => {}
                "flip" => { let b: usize = t[6].parse().unwrap(); ct[b / 8] ^= 0x80 >> (b % 8); }
                "trunc" => { let l: usize = t[6].parse().unwrap(); ct.truncate(l); }
                "c1" => { let mut n = unhex(t[6]); n.extend_from_slice(&ct[65..]); ct = n; }
                "id" => { did.push(0x21); }
                "xor" => { let (ps, mk) = t[6].split_once(':').unwrap(); let mk = u8::from_str_radix(mk, 16).unwrap();
                           for q in ps.split(',') { let i: usize = q.parse().unwrap(); ct[i] ^= mk; } }
                _ => panic!("bad tamper"),
            }
            match key.decrypt(&did, &ct) {
                Ok(p) => Out::Ok(hx(&p)),
                Err(_) => Out::Err("Decrypt".into()),
            }
        }
        // s9_exch <ke> <ida> <idb> <klen> <ra> <rb> <tamper: - | ra | rb | ra,rb | ra-offcurve | rb-offcurve>
        "s9_exch" => return Some(exch(t)),
        // s9_keygen sign|enc <cands>
        "s9_keygen" => {
            push_cands(t[2]);
            // sign / enc: the associated functions; signfn / encfn: the free functions generate_*_master_key (same code, second call site)
            let out = if t[1] == "signfn" {
                let k = gm_sm9::key::generate_sign_master_key();
                format!("{} {}", h(&k.ks), g2aff(&k.ppubs))
            } else if t[1] == "encfn" {
                let k = gm_sm9::key::generate_enc_master_key();
                format!("{} {}", h(&k.ke), g1aff(&k.ppube))
            } else if t[1] == "sign" {
                let k = Sm9SignMasterKey::master_key_generate();
                format!("{} {}", h(&k.ks), g2aff(&k.ppubs))
            } else {
                let k = Sm9EncMasterKey::master_key_generate();
                format!("{} {}", h(&k.ke), g1aff(&k.ppube))
            };
            let l = log_str();
            Out::Ok(format!("{} {}", out, l))
        }
        // s9_rngthreads <threads> <per-thread>: the scalars drawn by several threads of one process must all differ
        // (each thread records its own draws through the thread-local recorder)
        "s9_rngthreads" => {
            let nt: usize = t[1].parse().unwrap();
            let per: usize = t[2].parse().unwrap();
            let mut hs = vec![];
            for _ in 0..nt {
                hs.push(std::thread::spawn(move || {
                    vh::clear();
                    let mut v: Vec<U256> = vec![];
                    let me = Sm9EncMasterKey::master_key_generate();
                    v.extend(vh::take_log());
                    for i in 0..per {
                        match i % 3 {
                            0 => { let _ = Sm9SignMasterKey::master_key_generate(); }
                            1 => { let _ = gm_sm9::key::exch_step_1a(&me, b"Bob"); }
                            _ => { let _ = me.encrypt(b"Bob", &[7, i as u8]); }
                        }
                        v.extend(vh::take_log());
                    }
                    v
                }));
            }
            let mut all: Vec<U256> = vec![];
            vh::clear();
            let _ = Sm9EncMasterKey::master_key_generate();
            all.extend(vh::take_log());
            for h_ in hs { all.extend(h_.join().unwrap()); }
            let total = all.len();
            all.sort(); all.dedup();
            Out::Ok(format!("drawn>={} distinct={}", (total >= nt * (per + 1)) as u8, (all.len() == total) as u8))
        }
        "s9_rngstats" => {
            let n: usize = t[1].parse().unwrap();
            vh::clear();
            let ms = Sm9SignMasterKey::master_key_generate();
            let me = Sm9EncMasterKey::master_key_generate();
            let sk: Sm9SignKey = ms.extract_key(b"Alice").unwrap();
            let _ = vh::take_log();
            let mut all: Vec<U256> = vec![];
            for i in 0..n {
                match i % 4 {
                    0 => { let _ = Sm9EncMasterKey::master_key_generate(); }
                    1 => { let _ = sk.sign(&[i as u8, (i >> 8) as u8]); }
                    2 => { let _ = me.encrypt(b"Bob", &[1, 2, 3, i as u8]); }
                    _ => { let _ = gm_sm9::key::exch_step_1a(&me, b"Bob"); }
                }
                all.extend(vh::take_log());
            }
            let nn = u("b640000002a3a6f1d603ab4ff58ec74449f2934b18ea8beee56ee19cd69ecf25");
            let in_range = all.iter().all(|v| gm_sm9::u256::u256_cmp(v, &nn) < 0 && *v != [0, 0, 0, 0]);
            let mut sorted = all.clone();
            sorted.sort();
            sorted.dedup();
            let distinct = sorted.len() == all.len() && all.len() >= n;
            let m = all.len() as f64;
            let mut bits_ok = true;
            // N = 0xB64... : bits 0..=251 of a uniform scalar in [1, N-1] are unbiased to within 2^-4 relative; check 0..=250
            for bit in 0..251 {
                let ones = all.iter().filter(|v| (v[bit / 64] >> (bit % 64)) & 1 == 1).count() as f64;
                if (ones - m / 2.0).abs() > 8.0 * (m.sqrt() / 2.0) {
                    bits_ok = false;
                }
            }
            Out::Ok(format!("in-range={} distinct={} bits-ok={}", in_range as u8, distinct as u8, bits_ok as u8))
        }
        _ => return None,
    })
}

fn exch(t: &[&str]) -> Out {
    let m = enc_master(t[1]);
    let ida = unhex(t[2]);
    let idb = unhex(t[3]);
    let klen: usize = t[4].parse().unwrap();
    let key_a = match m.extract_exch_key(&ida) { Some(k) => k, None => return Out::Err("None".into()) };
    let key_b = match m.extract_exch_key(&idb) { Some(k) => k, None => return Out::Err("None".into()) };
    push_cands(&format!("{},{}", t[5], t[6]));
    let (ra, ra_) = gm_sm9::key::exch_step_1a(&m, &idb);
    let alter = |p: &Point, how: &str| -> Point {
        let mut b = p.to_bytes_be();
        if how == "offcurve" { b[64] ^= 1; } else { // another valid point: negate y is still on the curve
            let q = p.point_neg(); b = q.to_bytes_be();
        }
        vh::point_from_bytes(&b)
    };
    let tam: Vec<&str> = t[7].split(',').collect();
    let ra_b = if tam.contains(&"ra") { alter(&ra, "valid") } else if tam.contains(&"ra-offcurve") { alter(&ra, "offcurve") } else { ra };
    let (rb, skb) = match gm_sm9::key::exch_step_1b(&m, &ida, &idb, &key_b, &ra_b, klen) {
        Ok(x) => x,
        Err(_) => { vh::clear(); return Out::Err("step1b".into()); }
    };
    vh::clear();
    let rb_a = if tam.contains(&"rb") { alter(&rb, "valid") } else if tam.contains(&"rb-offcurve") { alter(&rb, "offcurve") } else { rb };
    let ska = match gm_sm9::key::exch_step_2a(&m, &ida, &idb, &key_a, ra_, &ra, &rb_a, klen) {
        Ok(x) => x,
        Err(_) => return Out::Err("step2a".into()),
    };
    Out::Ok(format!("{} {} {} {}", hx(&ra.to_bytes_be()), hx(&rb.to_bytes_be()), hx(&ska), hx(&skb)))
}
