//! SM2 ops (field/curve raw ops through hooks, sign/verify/encrypt/decrypt/exchange/encodings).
use crate::{hx, unhex, Out};
use gm_sm2::error::Sm2Error;
use gm_sm2::exchange::Exchange;
use gm_sm2::key::{Sm2Model, Sm2PrivateKey, Sm2PublicKey};
use gm_sm2::p256_ecc::{g_mul, Point};
use gm_sm2::u256::{u256_from_be_bytes, u256_to_be_bytes, U256};
use gm_sm2::verif_hooks as vh;
use gm_sm2::verif_hooks::{fn64, fp64, FieldModOperation};

fn u(s: &str) -> U256 {
    let b = unhex(s);
    assert!(b.len() == 32, "u256 arg must be 32 bytes");
    u256_from_be_bytes(&b)
}
fn h(a: &U256) -> String {
    hex::encode(u256_to_be_bytes(a))
}
fn h512(a: &[u64; 8]) -> String {
    let mut s = String::new();
    for i in (0..8).rev() {
        s += &format!("{:016x}", a[i]);
    }
    s
}
pub fn errname(e: Sm2Error) -> String {
    format!("{:?}", ErrDbg(e))
}
struct ErrDbg(Sm2Error);
impl std::fmt::Debug for ErrDbg {
    fn fmt(&self, f: &mut std::fmt::Formatter<'_>) -> std::fmt::Result {
        let s = match self.0 {
            Sm2Error::NotOnCurve => "NotOnCurve",
            Sm2Error::FieldSqrtError => "FieldSqrtError",
            Sm2Error::InvalidDer => "InvalidDer",
            Sm2Error::InvalidPublic => "InvalidPublic",
            Sm2Error::InvalidPrivate => "InvalidPrivate",
            Sm2Error::ZeroDivisor => "ZeroDivisor",
            Sm2Error::ZeroPoint => "ZeroPoint",
            Sm2Error::InvalidPoint => "InvalidPoint",
            Sm2Error::CheckPointErr => "CheckPointErr",
            Sm2Error::ZeroData => "ZeroData",
            Sm2Error::HashNotEqual => "HashNotEqual",
            Sm2Error::IdTooLong => "IdTooLong",
            Sm2Error::ZeroFiled => "ZeroFiled",
            Sm2Error::InvalidFieldLen => "InvalidFieldLen",
            Sm2Error::ZeroSig => "ZeroSig",
            Sm2Error::InvalidDigestLen => "InvalidDigestLen",
            Sm2Error::InvalidDigest => "InvalidDigest",
            Sm2Error::InvalidSecretKey => "InvalidSecretKey",
            Sm2Error::KdfHashError => "KdfHashError",
        };
        write!(f, "{}", s)
    }
}
fn res<T>(r: Result<T, Sm2Error>, f: impl FnOnce(T) -> String) -> Out {
    match r {
        Ok(v) => Out::Ok(f(v)),
        Err(e) => Out::Err(errname(e)),
    }
}
/// raw Jacobian point "x:y:z" in Montgomery limbs (hex), as stored
fn pt(s: &str) -> Point {
    let v: Vec<&str> = s.split(':').collect();
    Point { x: u(v[0]), y: u(v[1]), z: u(v[2]) }
}
fn hpt(p: &Point) -> String {
    format!("{}:{}:{}", h(&p.x), h(&p.y), h(&p.z))
}
/// affine canonical view "x,y" (from_mont of to_affine) or "inf"
fn haff(p: &Point) -> String {
    if p.is_zero() {
        "inf".into()
    } else {
        let a = p.to_affine_point();
        format!("{},{}", h(&vh::fp_from_mont(&a.x)), h(&vh::fp_from_mont(&a.y)))
    }
}

/// the same point in the Jacobian representation with Z = z (canonical field value, hex): (x z^2, y z^3, z) in Montgomery limbs.
/// Used by the `_j` ops: every protocol function must be independent of the representation of the points it is given.
fn rescale(p: &Point, zhex: &str) -> Point {
    if p.is_zero() { return *p; }
    let a = p.to_affine_point();
    let z = vh::fp_to_mont(&u(zhex));
    let z2 = z.fp_sqr();
    let z3 = z2.fp_mul(&z);
    Point { x: a.x.fp_mul(&z2), y: a.y.fp_mul(&z3), z }
}
fn pkj(zhex: &str, pkhex: &str) -> Result<Sm2PublicKey, Sm2Error> {
    let pk = Sm2PublicKey::new(&unhex(pkhex))?;
    Ok(Sm2PublicKey { point: rescale(&pk.point, zhex) })
}
fn model(s: &str) -> Sm2Model {
    if s == "c1c2c3" {
        Sm2Model::C1C2C3
    } else {
        Sm2Model::C1C3C2
    }
}
fn leak(s: &str) -> Option<&'static str> {
    if s == "default" {
        None
    } else {
        let b = unhex(s);
        let st = String::from_utf8(b).expect("id must be utf8");
        Some(Box::leak(st.into_boxed_str()))
    }
}
fn push_cands(s: &str) {
    vh::clear();
    if s != "-" && s != "none" {
        for c in s.split(',') {
            let b = unhex(c);
            let mut a = [0u8; 32];
            a.copy_from_slice(&b);
            vh::push_candidate(a);
        }
    }
}
fn log_str() -> String {
    let l = vh::take_log();
    let left = vh::queued();
    vh::clear();
    format!("used={} left={}", if l.is_empty() { "-".to_string() } else { l.iter().map(h).collect::<Vec<_>>().join(",") }, left)
}

pub fn dump() {
    let p = |name: &str, v: &U256| println!("sm2.{} {}", name, h(v));
    p("P", &fp64::SM2_P);
    p("P_MINUS_TWO", &fp64::SM2_P_MINUS_TWO);
    p("P_PRIME", &fp64::SM2_P_PRIME);
    p("MODP_2E512", &fp64::SM2_MODP_2E512);
    p("SQRT_EXP", &fp64::SM2_SQRT_EXP);
    p("MODP_MONT_ONE", &fp64::SM2_MODP_MONT_ONE);
    p("MODP_MONT_A", &fp64::SM2_MODP_MONT_A);
    p("MODP_MONT_B", &fp64::SM2_MODP_MONT_B);
    p("G_X", &fp64::SM2_G_X);
    p("G_Y", &fp64::SM2_G_Y);
    p("N", &fn64::SM2_N);
    p("N_NEG", &fn64::SM2_N_NEG);
    p("N_MINUS_TWO", &fn64::SM2_N_MINUS_TWO);
    p("N_PRIME", &fn64::SM2_N_PRIME);
    p("MOD_N_2E512", &fn64::SM2_MOD_N_2E512);
    let t = vh::precomputed();
    for (i, row) in t.iter().enumerate() {
        println!("sm2.TABLE.{} {}", i, row.iter().map(h).collect::<Vec<_>>().join(" "));
    }
}

pub fn dispatch(t: &[&str]) -> Option<Out> {
    Some(match t[0] {
        // ---- limb level (u256.rs)
        "u256_add" => { let (r, c) = gm_sm2::u256::u256_add(&u(t[1]), &u(t[2])); Out::Ok(format!("{} {}", h(&r), c as u8)) }
        "u256_sub" => { let (r, c) = gm_sm2::u256::u256_sub(&u(t[1]), &u(t[2])); Out::Ok(format!("{} {}", h(&r), c as u8)) }
        "u256_mul" => Out::Ok(h512(&gm_sm2::u256::u256_mul(&u(t[1]), &u(t[2])))),
        "u256_cmp" => Out::Ok(format!("{}", gm_sm2::u256::u256_cmp(&u(t[1]), &u(t[2])))),
        // ---- field level, raw Montgomery limbs in and out
        "fp_mont_mul" => Out::Ok(h(&vh::fp_mont_mul(&u(t[1]), &u(t[2])))),
        "fp_add" => Out::Ok(h(&u(t[1]).fp_add(&u(t[2])))),
        "fp_sub" => Out::Ok(h(&u(t[1]).fp_sub(&u(t[2])))),
        "fp_neg" => Out::Ok(h(&u(t[1]).fp_neg())),
        "fp_double" => Out::Ok(h(&u(t[1]).fp_double())),
        "fp_triple" => Out::Ok(h(&u(t[1]).fp_triple())),
        "fp_div2" => Out::Ok(h(&u(t[1]).fp_div2())),
        "fp_sqr" => Out::Ok(h(&u(t[1]).fp_sqr())),
        "fp_inv" => Out::Ok(h(&u(t[1]).fp_inv())),
        "fp_pow" => Out::Ok(h(&fp64::fp_pow(&u(t[1]), &u(t[2])))),
        "fp_sqrt" => res(fp64::fp_sqrt(&u(t[1])), |v| h(&v)),
        "fp_to_mont" => Out::Ok(h(&vh::fp_to_mont(&u(t[1])))),
        "fp_from_mont" => Out::Ok(h(&vh::fp_from_mont(&u(t[1])))),
        "fn_add" => Out::Ok(h(&fn64::fn_add(&u(t[1]), &u(t[2])))),
        "fn_sub" => Out::Ok(h(&fn64::fn_sub(&u(t[1]), &u(t[2])))),
        "fn_mul" => Out::Ok(h(&fn64::fn_mul(&u(t[1]), &u(t[2])))),
        "fn_pow" => Out::Ok(h(&fn64::fn_pow(&u(t[1]), &u(t[2])))),
        "fn_inv" => Out::Ok(h(&fn64::fn_inv(&u(t[1])))),
        // ---- curve level: raw Jacobian in, raw Jacobian + affine view out
        "pt_add" => { let r = pt(t[1]).point_add(&pt(t[2])); Out::Ok(haff(&r)) }
        "pt_dbl" => { let r = pt(t[1]).point_dbl(); Out::Ok(haff(&r)) }
        "pt_neg" => { let r = pt(t[1]).neg(); Out::Ok(haff(&r)) }
        "pt_add_raw" => { let r = pt(t[1]).point_add(&pt(t[2])); Out::Ok(hpt(&r)) }
        "pt_dbl_raw" => { let r = pt(t[1]).point_dbl(); Out::Ok(hpt(&r)) }
        "pt_neg_raw" => { let r = pt(t[1]).neg(); Out::Ok(hpt(&r)) }
        "pt_valid" => { let p = pt(t[1]); Out::Ok(format!("{} {}", p.is_valid(), p.is_valid_affine_point())) }
        "pt_affine" => { let r = pt(t[1]).to_affine_point(); Out::Ok(hpt(&r)) }
        "pt_mul" => { let k = u(t[2]); let r = pt(t[1]).scalar_mul(&k); Out::Ok(haff(&r)) }
        "g_mul" => { let r = g_mul(&u(t[1])); Out::Ok(haff(&r)) }
        "pt_mul_raw" => { let k = u(t[2]); let r = pt(t[1]).scalar_mul(&k); Out::Ok(hpt(&r)) }
        "g_mul_raw" => { let r = g_mul(&u(t[1])); Out::Ok(hpt(&r)) }
        "pt_bytes" => Out::Ok(hx(&pt(t[1]).to_byte_be(t[2] == "1"))),
        "pt_from" => res(vh::point_from_byte(&unhex(t[1])), |p| haff(&p)),
        // ---- keys and encodings
        // sk_new <bytes>  -> d and public key (uncompressed)
        "sk_new" => res(Sm2PrivateKey::new(&unhex(t[1])), |sk| format!("{} {}", hx(&sk.to_bytes_be()), hx(&sk.public_key.to_bytes(false)))),
        "pk_new" => res(Sm2PublicKey::new(&unhex(t[1])), |pk| format!("{} {}", hx(&pk.to_bytes(false)), hx(&pk.to_bytes(true)))),
        "sk_hex" => match Sm2PrivateKey::from_hex_string(std::str::from_utf8(&unhex(t[1])).unwrap_or("zz")) {
            Ok(sk) => Out::Ok(format!("{} {}", sk.to_hex_string(), hx(&sk.public_key.to_bytes(false)))),
            Err(_) => Out::Err("HexOrKey".into()),
        },
        "pk_hex" => match Sm2PublicKey::from_hex_string(std::str::from_utf8(&unhex(t[1])).unwrap_or("zz")) {
            Ok(pk) => Out::Ok(format!("{} {}", pk.to_hex_string(false), pk.to_hex_string(true))),
            Err(_) => Out::Err("HexOrKey".into()),
        },
        // kdf <z> <klen>
        "sm2_kdf" => Out::Ok(hx(&gm_sm2::util::kdf(&unhex(t[1]), t[2].parse().unwrap()))),
        // sm2_kdf_block <z> <blk>: bytes 32*(blk-1) .. 32*blk of the key stream (the real code derives all 32*blk bytes), so that
        // far-away counter values can be compared without shipping megabytes through the line protocol
        "sm2_kdf_block" => { let b: usize = t[2].parse().unwrap(); let k = gm_sm2::util::kdf(&unhex(t[1]), 32 * b); Out::Ok(hx(&k[32 * (b - 1)..])) }
        // za <id|default> <pk bytes>
        "sm2_za" => {
            let pk = match Sm2PublicKey::new(&unhex(t[2])) { Ok(p) => p, Err(e) => return Some(Out::Err(errname(e))) };
            let id = leak(t[1]).unwrap_or("1234567812345678");
            res(gm_sm2::util::compute_za(id, &pk.point), |z| hx(&z))
        }
        // sm2_sign <d> <id|default> <msg> <cands>   -> sig + scalars used
        "sm2_sign" => {
            let sk = match Sm2PrivateKey::new(&unhex(t[1])) { Ok(k) => k, Err(e) => return Some(Out::Err(errname(e))) };
            push_cands(t[4]);
            let r = sk.sign(leak(t[2]), &unhex(t[3]));
            let l = log_str();
            res(r, |s| format!("{} {}", hx(&s), l))
        }
        // sm2_sign_raw <d> <digest> <cands>
        "sm2_sign_raw" => {
            let sk = match Sm2PrivateKey::new(&unhex(t[1])) { Ok(k) => k, Err(e) => return Some(Out::Err(errname(e))) };
            push_cands(t[3]);
            let r = sk.verif_sign_raw(&unhex(t[2]));
            let l = log_str();
            res(r, |s| format!("{} {}", hx(&s), l))
        }
        // sm2_verify <pk> <id|default> <msg> <sig>
        "sm2_verify" => {
            let pk = match Sm2PublicKey::new(&unhex(t[1])) { Ok(p) => p, Err(e) => return Some(Out::Err(errname(e))) };
            res(pk.verify(leak(t[2]), &unhex(t[3]), &unhex(t[4])), |_| String::new())
        }
        "sm2_verify_raw" => {
            let pk = match Sm2PublicKey::new(&unhex(t[1])) { Ok(p) => p, Err(e) => return Some(Out::Err(errname(e))) };
            res(pk.verif_verify_raw(&unhex(t[2]), &unhex(t[3])), |_| String::new())
        }
        // sm2_enc <pk> <msg> <compressed 0|1> <order> <cands>
        "sm2_enc" => {
            let pk = match Sm2PublicKey::new(&unhex(t[1])) { Ok(p) => p, Err(e) => return Some(Out::Err(errname(e))) };
            push_cands(t[5]);
            let r = pk.encrypt(&unhex(t[2]), t[3] == "1", model(t[4]));
            let l = log_str();
            res(r, |c| format!("{} {}", hx(&c), l))
        }
        // sm2_dec <d> <ct> <compressed> <order>
        "sm2_dec" => {
            let sk = match Sm2PrivateKey::new(&unhex(t[1])) { Ok(k) => k, Err(e) => return Some(Out::Err(errname(e))) };
            res(sk.decrypt(&unhex(t[2]), t[3] == "1", model(t[4])), |m| hx(&m))
        }
        "sm2_enc_asn1" => {
            let pk = match Sm2PublicKey::new(&unhex(t[1])) { Ok(p) => p, Err(e) => return Some(Out::Err(errname(e))) };
            push_cands(t[5]);
            let r = pk.encrypt_asn1(&unhex(t[2]), t[3] == "1", model(t[4]));
            let l = log_str();
            res(r, |c| format!("{} {}", hx(&c), l))
        }
        "sm2_dec_asn1" => {
            let sk = match Sm2PrivateKey::new(&unhex(t[1])) { Ok(k) => k, Err(e) => return Some(Out::Err(errname(e))) };
            res(sk.decrypt_asn1(&unhex(t[2]), t[3] == "1", model(t[4])), |m| hx(&m))
        }
        // sm2_kex <dA> <dB> <idA> <idB> <klen> <rA> <rB> <tamper>
        //   tamper: comma list of ra|rb|sb|sa (flip one bit of that message in transit) or "-"
        // the public key is a raw Point OBJECT (the field `point` is public): possibly off the curve, at infinity, any representation
        "sm2_verify_raw_p" => {
            let pk = Sm2PublicKey { point: pt(t[1]) };
            res(pk.verif_verify_raw(&unhex(t[2]), &unhex(t[3])), |_| String::new())
        }
        "sm2_verify_p" => {
            let pk = Sm2PublicKey { point: pt(t[1]) };
            res(pk.verify(leak(t[2]), &unhex(t[3]), &unhex(t[4])), |_| String::new())
        }
        // representation-independence variants: the public key is handed over as (x z^2, y z^3, z)
        "sm2_za_j" => {
            let pk = match pkj(t[1], t[3]) { Ok(p) => p, Err(e) => return Some(Out::Err(errname(e))) };
            let id = leak(t[2]).unwrap_or("1234567812345678");
            res(gm_sm2::util::compute_za(id, &pk.point), |z| hx(&z))
        }
        "sm2_verify_j" => {
            let pk = match pkj(t[1], t[2]) { Ok(p) => p, Err(e) => return Some(Out::Err(errname(e))) };
            res(pk.verify(leak(t[3]), &unhex(t[4]), &unhex(t[5])), |_| String::new())
        }
        "sm2_verify_raw_j" => {
            let pk = match pkj(t[1], t[2]) { Ok(p) => p, Err(e) => return Some(Out::Err(errname(e))) };
            res(pk.verif_verify_raw(&unhex(t[3]), &unhex(t[4])), |_| String::new())
        }
        "sm2_enc_j" => {
            let pk = match pkj(t[1], t[2]) { Ok(p) => p, Err(e) => return Some(Out::Err(errname(e))) };
            push_cands(t[6]);
            let r = pk.encrypt(&unhex(t[3]), t[4] == "1", model(t[5]));
            let l = log_str();
            res(r, |c| format!("{} {}", hx(&c), l))
        }
        // sm2_kex_j <zPA,zPB,zRA,zRB> <dA> <dB> <idA> <idB> <klen> <rA> <rB> <tamper>
        "sm2_kex_j" => return Some(kex_z(&t[1..], Some(t[1]))),
        "sm2_kex" => return Some(kex(t)),
        // sm2_kexforge <dA> <dB> <idA> <idB> <klen> <rA> <rB> <sb|sa> <32-byte value>: an honest run in which the confirmation
        // value S_B (resp. S_A) is REPLACED in transit by the given value
        "sm2_kexforge" => return Some(kexforge(t)),
        // sm2_kexseq <dA> <dB> <idA> <idB> <klen> <rA1,rA2,..> <rB1,rB2,..>: honest sessions on ONE long-lived pair of objects
        "sm2_kexseq" => return Some(kexseq(t)),
        // sign then verify with the library itself: sm2_sv <d> <id> <msg> <cands>
        "sm2_sv" => {
            let sk = match Sm2PrivateKey::new(&unhex(t[1])) { Ok(k) => k, Err(e) => return Some(Out::Err(errname(e))) };
            push_cands(t[4]);
            let r = sk.sign(leak(t[2]), &unhex(t[3]));
            vh::clear();
            match r {
                Err(e) => Out::Err(errname(e)),
                Ok(sig) => res(sk.to_public_key().verify(leak(t[2]), &unhex(t[3]), &sig), |_| "verified".to_string()),
            }
        }
        // encrypt then decrypt: sm2_ed <d> <msg> <compressed> <order> <cands>
        "sm2_ed" => {
            let sk = match Sm2PrivateKey::new(&unhex(t[1])) { Ok(k) => k, Err(e) => return Some(Out::Err(errname(e))) };
            push_cands(t[5]);
            let r = sk.to_public_key().encrypt(&unhex(t[2]), t[3] == "1", model(t[4]));
            vh::clear();
            match r {
                Err(e) => Out::Err(errname(e)),
                Ok(ct) => res(sk.decrypt(&ct, t[3] == "1", model(t[4])), |m| hx(&m)),
            }
        }
        // ASN.1 round trip: sm2_ed_asn1 <d> <msg> <cands>
        "sm2_ed_asn1" => {
            let sk = match Sm2PrivateKey::new(&unhex(t[1])) { Ok(k) => k, Err(e) => return Some(Out::Err(errname(e))) };
            push_cands(t[3]);
            let r = sk.to_public_key().encrypt_asn1(&unhex(t[2]), false, Sm2Model::C1C3C2);
            vh::clear();
            match r {
                Err(e) => Out::Err(errname(e)),
                Ok(ct) => res(sk.decrypt_asn1(&ct, false, Sm2Model::C1C3C2), |m| hx(&m)),
            }
        }
        // ---- documents (pkcs8 / spki / sec1 crates)
        "sm2_spki_enc" => {
            use pkcs8::EncodePublicKey;
            let pk = match Sm2PublicKey::new(&unhex(t[1])) { Ok(p) => p, Err(e) => return Some(Out::Err(errname(e))) };
            match pk.to_public_key_der() { Ok(d) => Out::Ok(hx(d.as_bytes())), Err(_) => Out::Err("Spki".into()) }
        }
        "sm2_spki_dec" => {
            use pkcs8::DecodePublicKey;
            match Sm2PublicKey::from_public_key_der(&unhex(t[1])) { Ok(pk) => Out::Ok(hx(&pk.to_bytes(false))), Err(_) => Out::Err("Spki".into()) }
        }
        "sm2_pkcs8_enc" => {
            use pkcs8::EncodePrivateKey;
            let sk = match Sm2PrivateKey::new(&unhex(t[1])) { Ok(k) => k, Err(e) => return Some(Out::Err(errname(e))) };
            match sk.to_pkcs8_der() { Ok(d) => Out::Ok(hx(d.as_bytes())), Err(_) => Out::Err("Pkcs8".into()) }
        }
        "sm2_pkcs8_dec" => {
            use pkcs8::DecodePrivateKey;
            match Sm2PrivateKey::from_pkcs8_der(&unhex(t[1])) {
                Ok(sk) => Out::Ok(format!("{} {}", hx(&sk.to_bytes_be()), hx(&sk.public_key.to_bytes(false)))),
                Err(_) => Out::Err("Pkcs8".into()),
            }
        }
        // PEM round trips inside the library: encode then decode
        "sm2_spki_pem_rt" => {
            use pkcs8::{DecodePublicKey, EncodePublicKey, LineEnding};
            let pk = match Sm2PublicKey::new(&unhex(t[1])) { Ok(p) => p, Err(e) => return Some(Out::Err(errname(e))) };
            let le = if t[2] == "crlf" { LineEnding::CRLF } else { LineEnding::LF };
            let pem = match pk.to_public_key_pem(le) { Ok(s) => s, Err(_) => return Some(Out::Err("Spki".into())) };
            match Sm2PublicKey::from_public_key_pem(&pem) { Ok(pk) => Out::Ok(hx(&pk.to_bytes(false))), Err(_) => Out::Err("Spki".into()) }
        }
        "sm2_pkcs8_pem_rt" => {
            use pkcs8::{DecodePrivateKey, EncodePrivateKey, LineEnding};
            let sk = match Sm2PrivateKey::new(&unhex(t[1])) { Ok(k) => k, Err(e) => return Some(Out::Err(errname(e))) };
            let le = if t[2] == "crlf" { LineEnding::CRLF } else { LineEnding::LF };
            let pem = match sk.to_pkcs8_pem(le) { Ok(s) => s, Err(_) => return Some(Out::Err("Pkcs8".into())) };
            match Sm2PrivateKey::from_pkcs8_pem(&pem) {
                Ok(sk) => Out::Ok(format!("{} {}", hx(&sk.to_bytes_be()), hx(&sk.public_key.to_bytes(false)))),
                Err(_) => Out::Err("Pkcs8".into()),
            }
        }
        // sm2_tamper <d> <msg> <comp> <order> <k> <kind> <arg> : encrypt with nonce k, alter the ciphertext, decrypt
        "sm2_tamper" => {
            let sk = match Sm2PrivateKey::new(&unhex(t[1])) { Ok(k) => k, Err(e) => return Some(Out::Err(errname(e))) };
            push_cands(t[5]);
            let r = sk.to_public_key().encrypt(&unhex(t[2]), t[3] == "1", model(t[4]));
            vh::clear();
            let mut ct = match r { Ok(c) => c, Err(e) => return Some(Out::Err(format!("enc:{}", errname(e)))) };
            let c1len = if t[3] == "1" { 33 } else { 65 };
            match t[6] {
                "none" => {}
                "flip" => { let b: usize = t[7].parse().unwrap(); ct[b / 8] ^= 0x80 >> (b % 8); }
                "trunc" => { let l: usize = t[7].parse().unwrap(); ct.truncate(l); }
                "prefix" => { ct[0] = t[7].parse::<u16>().unwrap() as u8; }
                "c1" => { let mut n = unhex(t[7]); n.extend_from_slice(&ct[c1len..]); ct = n; }
                // xor <pos1,pos2,..:mask> : XOR the byte `mask` (hex) into each listed byte position
                "xor" => { let (ps, m) = t[7].split_once(':').unwrap(); let m = u8::from_str_radix(m, 16).unwrap();
                           for q in ps.split(',') { let i: usize = q.parse().unwrap(); ct[i] ^= m; } }
                _ => panic!("bad tamper kind"),
            }
            res(sk.decrypt(&ct, t[3] == "1", model(t[4])), |m| hx(&m))
        }
        // sm2_rngstats <n> : un-hooked randomness; scalars observed through the recorder at every call site
        // sm2_rngthreads <threads> <per-thread>: scalars drawn by several threads of one process must all differ
        "sm2_rngthreads" => {
            let nt: usize = t[1].parse().unwrap();
            let per: usize = t[2].parse().unwrap();
            let mut hs = vec![];
            for _ in 0..nt {
                hs.push(std::thread::spawn(move || {
                    vh::clear();
                    let mut v: Vec<U256> = vec![];
                    let (pk0, sk0) = gm_sm2::key::gen_keypair().ok().unwrap();
                    v.extend(vh::take_log());
                    for i in 0..per {
                        match i % 3 {
                            0 => { let _ = gm_sm2::key::gen_keypair(); }
                            1 => { let _ = sk0.sign(None, &[i as u8, 9]); }
                            _ => { let _ = pk0.encrypt(&[1, 2, i as u8], false, Sm2Model::C1C3C2); }
                        }
                        v.extend(vh::take_log());
                    }
                    v
                }));
            }
            let mut all: Vec<U256> = vec![];
            vh::clear();
            let _ = gm_sm2::key::gen_keypair();
            all.extend(vh::take_log());
            for h_ in hs { all.extend(h_.join().unwrap()); }
            let total = all.len();
            all.sort(); all.dedup();
            Out::Ok(format!("drawn>={} distinct={}", (total >= nt * (per + 1)) as u8, (all.len() == total) as u8))
        }
        "sm2_rngstats" => {
            let n: usize = t[1].parse().unwrap();
            vh::clear();
            let (pk0, sk0) = gm_sm2::key::gen_keypair().ok().unwrap();
            let _ = vh::take_log();
            let mut all: Vec<U256> = vec![];
            for i in 0..n {
                match i % 4 {
                    0 => { let _ = gm_sm2::key::gen_keypair(); }
                    1 => { let _ = sk0.sign(None, &[i as u8, (i >> 8) as u8]); }
                    2 => { let _ = pk0.encrypt(&[1, 2, 3, i as u8], false, Sm2Model::C1C3C2); }
                    _ => {
                        let mut a = Exchange::new(16, None, &pk0, &sk0, None, &pk0).ok().unwrap();
                        let _ = a.exchange_1();
                    }
                }
                all.extend(vh::take_log());
            }
            let nn = fn64::SM2_N;
            let in_range = all.iter().all(|v| gm_sm2::u256::u256_cmp(v, &nn) < 0 && *v != [0, 0, 0, 0]);
            let mut sorted = all.clone();
            sorted.sort();
            sorted.dedup();
            let distinct = sorted.len() == all.len() && all.len() >= n;
            let m = all.len() as f64;
            let mut bits_ok = true;
            for bit in 0..255 {
                let ones = all.iter().filter(|v| (v[bit / 64] >> (bit % 64)) & 1 == 1).count() as f64;
                if (ones - m / 2.0).abs() > 8.0 * (m.sqrt() / 2.0) {
                    bits_ok = false;
                }
            }
            Out::Ok(format!("in-range={} distinct={} bits-ok={}", in_range as u8, distinct as u8, bits_ok as u8))
        }
        // keygen with candidates: sm2_keygen <cands>
        "sm2_keygen" => {
            push_cands(t[1]);
            let r = gm_sm2::key::gen_keypair();
            let l = log_str();
            res(r, |(pk, sk)| format!("{} {} {}", hx(&sk.to_bytes_be()), hx(&pk.to_bytes(false)), l))
        }
        _ => return None,
    })
}

fn flip(p: &Point) -> Point {
    // an in-transit modification of a point: re-encode, flip the lowest bit of x, decode WITHOUT validation
    let mut b = p.to_byte_be(false);
    b[32] ^= 1;
    let x = u256_from_be_bytes(&b[1..33]);
    let y = u256_from_be_bytes(&b[33..65]);
    vh::to_jacobi(&vh::fp_to_mont(&x), &vh::fp_to_mont(&y))
}

fn kexforge(t: &[&str]) -> Out {
    let ska = match Sm2PrivateKey::new(&unhex(t[1])) { Ok(k) => k, Err(e) => return Out::Err(errname(e)) };
    let skb = match Sm2PrivateKey::new(&unhex(t[2])) { Ok(k) => k, Err(e) => return Out::Err(errname(e)) };
    let ida = leak(t[3]);
    let idb = leak(t[4]);
    let klen: usize = t[5].parse().unwrap();
    let pka = ska.to_public_key();
    let pkb = skb.to_public_key();
    let mut a = match Exchange::new(klen, ida, &pka, &ska, idb, &pkb) { Ok(x) => x, Err(e) => return Out::Err(errname(e)) };
    let mut b = match Exchange::new(klen, idb, &pkb, &skb, ida, &pka) { Ok(x) => x, Err(e) => return Out::Err(errname(e)) };
    push_cands(&format!("{},{}", t[6], t[7]));
    let ra = match a.exchange_1() { Ok(p) => p, Err(e) => return Out::Err(format!("step1:{}", errname(e))) };
    let r2 = b.exchange_2(&ra);
    vh::clear();
    let (rb, sb) = match r2 { Ok(x) => x, Err(e) => return Out::Err(format!("step2:{}", errname(e))) };
    let mut forged = [0u8; 32];
    forged.copy_from_slice(&unhex(t[9]));
    let sb_a = if t[8] == "sb" { forged } else { sb };
    let sa = match a.exchange_3(&rb, sb_a) { Ok(x) => x, Err(e) => return Out::Err(format!("step3:{}", errname(e))) };
    let sa_b = if t[8] == "sa" { forged } else { sa };
    match b.exchange_4(sa_b, &ra) { Ok(true) => Out::Ok("accepted".into()), Ok(false) => Out::Err("step4:false".into()), Err(e) => Out::Err(format!("step4:{}", errname(e))) }
}

fn kexseq(t: &[&str]) -> Out {
    let ska = match Sm2PrivateKey::new(&unhex(t[1])) { Ok(k) => k, Err(e) => return Out::Err(errname(e)) };
    let skb = match Sm2PrivateKey::new(&unhex(t[2])) { Ok(k) => k, Err(e) => return Out::Err(errname(e)) };
    let ida = leak(t[3]);
    let idb = leak(t[4]);
    let klen: usize = t[5].parse().unwrap();
    let pka = ska.to_public_key();
    let pkb = skb.to_public_key();
    let mut a = match Exchange::new(klen, ida, &pka, &ska, idb, &pkb) { Ok(x) => x, Err(e) => return Out::Err(errname(e)) };
    let mut b = match Exchange::new(klen, idb, &pkb, &skb, ida, &pka) { Ok(x) => x, Err(e) => return Out::Err(errname(e)) };
    let mut outs = vec![];
    for (i, (ca, cb)) in t[6].split(',').zip(t[7].split(',')).enumerate() {
        push_cands(&format!("{},{}", ca, cb));
        let ra = match a.exchange_1() { Ok(p) => p, Err(e) => { vh::clear(); return Out::Err(format!("s{}step1:{}", i, errname(e))) } };
        let r2 = b.exchange_2(&ra);
        vh::clear();
        let (rb, sb) = match r2 { Ok(x) => x, Err(e) => return Out::Err(format!("s{}step2:{}", i, errname(e))) };
        let sa = match a.exchange_3(&rb, sb) { Ok(x) => x, Err(e) => return Out::Err(format!("s{}step3:{}", i, errname(e))) };
        match b.exchange_4(sa, &ra) { Ok(true) => {}, Ok(false) => return Out::Err(format!("s{}step4:false", i)), Err(e) => return Out::Err(format!("s{}step4:{}", i, errname(e))) };
        outs.push(format!("{} {} {} {} {} {}", hx(&ra.to_byte_be(false)), hx(&rb.to_byte_be(false)), hx(&sb), hx(&sa),
            hx(&a.verif_key().unwrap()), hx(&b.verif_key().unwrap())));
    }
    Out::Ok(outs.join(" | "))
}

fn kex(t: &[&str]) -> Out { kex_z(t, None) }
fn kex_z(t: &[&str], zs: Option<&str>) -> Out {
    let z: Vec<&str> = zs.map(|s| s.split(',').collect()).unwrap_or_default();
    let rs = |p: &Point, i: usize| -> Point { if z.len() == 4 { rescale(p, z[i]) } else { *p } };
    let ska = match Sm2PrivateKey::new(&unhex(t[1])) { Ok(k) => k, Err(e) => return Out::Err(errname(e)) };
    let skb = match Sm2PrivateKey::new(&unhex(t[2])) { Ok(k) => k, Err(e) => return Out::Err(errname(e)) };
    let ida = leak(t[3]);
    let idb = leak(t[4]);
    let klen: usize = t[5].parse().unwrap();
    let tam: Vec<&str> = t[8].split(',').collect();
    let pka = Sm2PublicKey { point: rs(&ska.to_public_key().point, 0) };
    let pkb = Sm2PublicKey { point: rs(&skb.to_public_key().point, 1) };
    let mut a = match Exchange::new(klen, ida, &pka, &ska, idb, &pkb) { Ok(x) => x, Err(e) => return Out::Err(errname(e)) };
    let mut b = match Exchange::new(klen, idb, &pkb, &skb, ida, &pka) { Ok(x) => x, Err(e) => return Out::Err(errname(e)) };
    push_cands(&format!("{},{}", t[6], t[7]));
    let ra = match a.exchange_1() { Ok(p) => p, Err(e) => return Out::Err(format!("step1:{}", errname(e))) };
    let ra_b = if tam.contains(&"ra") { flip(&ra) } else { rs(&ra, 2) };
    let (rb, sb) = match b.exchange_2(&ra_b) { Ok(x) => x, Err(e) => { vh::clear(); return Out::Err(format!("step2:{}", errname(e))) } };
    vh::clear();
    let rb_a = if tam.contains(&"rb") { flip(&rb) } else { rs(&rb, 3) };
    let mut sb_a = sb;
    if tam.contains(&"sb") { sb_a[0] ^= 1; }
    let sa = match a.exchange_3(&rb_a, sb_a) { Ok(x) => x, Err(e) => return Out::Err(format!("step3:{}", errname(e))) };
    let mut sa_b = sa;
    if tam.contains(&"sa") { sa_b[31] ^= 0x80; }
    let ok = match b.exchange_4(sa_b, &ra_b) { Ok(x) => x, Err(e) => return Out::Err(format!("step4:{}", errname(e))) };
    if !ok {
        return Out::Err("step4:false".into());
    }
    Out::Ok(format!("{} {} {} {} {} {}", hx(&ra.to_byte_be(false)), hx(&rb.to_byte_be(false)), hx(&sb), hx(&sa),
        hx(&a.verif_key().unwrap()), hx(&b.verif_key().unwrap())))
}
