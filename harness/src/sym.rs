//! SM3, SM4 (+modes), ZUC, EEA3/EIA3 ops.
use crate::{hx, unhex, Out};
use gm_sm4::{CipherMode, Sm4Cipher, Sm4CipherMode};

fn words(ws: &[u32]) -> String {
    if ws.is_empty() {
        "-".into()
    } else {
        ws.iter().map(|w| format!("{:08x}", w)).collect::<Vec<_>>().join(",")
    }
}
fn parse_words(s: &str) -> Vec<u32> {
    if s == "-" {
        vec![]
    } else {
        s.split(',').map(|w| u32::from_str_radix(w, 16).unwrap()).collect()
    }
}

pub fn dump() {
    let p = |name: &str, v: Vec<String>| println!("{} {}", name, v.join(" "));
    p("sm3.IV", gm_sm3::verif_hooks::iv().iter().map(|x| format!("{:08x}", x)).collect());
    p("sm3.T00", vec![format!("{:08x}", gm_sm3::verif_hooks::t00())]);
    p("sm3.T16", vec![format!("{:08x}", gm_sm3::verif_hooks::t16())]);
    p("sm4.SBOX", gm_sm4::verif_hooks::sbox().iter().map(|x| format!("{:02x}", x)).collect());
    p("sm4.FK", gm_sm4::verif_hooks::fk().iter().map(|x| format!("{:08x}", x)).collect());
    p("sm4.CK", gm_sm4::verif_hooks::ck().iter().map(|x| format!("{:08x}", x)).collect());
    p("zuc.S0", gm_zuc::verif_hooks::s0().iter().map(|x| format!("{:02x}", x)).collect());
    p("zuc.S1", gm_zuc::verif_hooks::s1().iter().map(|x| format!("{:02x}", x)).collect());
    p("zuc.D", gm_zuc::verif_hooks::d().iter().map(|x| format!("{:04x}", x)).collect());
}

fn sm4err(e: gm_sm4::Sm4Error) -> String {
    match e {
        gm_sm4::Sm4Error::ErrorBlockSize => "ErrorBlockSize".into(),
        gm_sm4::Sm4Error::ErrorDataLen => "ErrorDataLen".into(),
        gm_sm4::Sm4Error::InvalidLastU8 => "InvalidLastU8".into(),
    }
}

fn mode_of(s: &str) -> CipherMode {
    match s {
        "cfb" => CipherMode::Cfb,
        "ofb" => CipherMode::Ofb,
        "ctr" => CipherMode::Ctr,
        "cbc" => CipherMode::Cbc,
        _ => panic!("bad mode"),
    }
}

pub fn dispatch(t: &[&str]) -> Option<Out> {
    match t[0] {
        // sm3 <hex>
        "sm3" => Some(Out::Ok(hx(&gm_sm3::sm3_hash(&unhex(t[1]))))),
        // sm3seq <hex> <hex> ... : hash each in order on the same thread (purity / interleaving)
        "sm3seq" => {
            let r: Vec<String> = t[1..].iter().map(|m| hx(&gm_sm3::sm3_hash(&unhex(m)))).collect();
            Some(Out::Ok(r.join(" ")))
        }
        // sm3rep <blockhex> <count> <tailhex> : message = block^count ++ tail
        "sm3rep" => {
            let block = unhex(t[1]);
            let count: usize = t[2].parse().unwrap();
            let tail = unhex(t[3]);
            let mut m = Vec::with_capacity(block.len() * count + tail.len());
            for _ in 0..count {
                m.extend_from_slice(&block);
            }
            m.extend_from_slice(&tail);
            Some(Out::Ok(hx(&gm_sm3::sm3_hash(&m))))
        }
        // sm4 enc|dec <key> <block>
        "sm4" => {
            let c = match Sm4Cipher::new(&unhex(t[2])) {
                Ok(c) => c,
                Err(e) => return Some(Out::Err(sm4err(e))),
            };
            let r = if t[1] == "enc" { c.encrypt(&unhex(t[3])) } else { c.decrypt(&unhex(t[3])) };
            Some(match r {
                Ok(v) => Out::Ok(hx(&v)),
                Err(e) => Out::Err(sm4err(e)),
            })
        }
        // sm4hist <key> e:<block> d:<block> ... : one cipher object, mixed sequence
        "sm4hist" => {
            let c = match Sm4Cipher::new(&unhex(t[1])) {
                Ok(c) => c,
                Err(e) => return Some(Out::Err(sm4err(e))),
            };
            let mut rs = vec![];
            for op in &t[2..] {
                let (d, b) = op.split_at(2);
                let r = if d == "e:" { c.encrypt(&unhex(b)) } else { c.decrypt(&unhex(b)) };
                rs.push(match r {
                    Ok(v) => hx(&v),
                    Err(e) => format!("ERR:{}", sm4err(e)),
                });
            }
            Some(Out::Ok(rs.join(" ")))
        }
        // sm4mode <mode> enc|dec <key> <iv> <data>
        "sm4mode" => {
            let c = match Sm4CipherMode::new(&unhex(t[3]), mode_of(t[1])) {
                Ok(c) => c,
                Err(e) => return Some(Out::Err(sm4err(e))),
            };
            let iv = unhex(t[4]);
            let data = unhex(t[5]);
            let r = if t[2] == "enc" { c.encrypt(&data, &iv) } else { c.decrypt(&data, &iv) };
            Some(match r {
                Ok(v) => Out::Ok(hx(&v)),
                Err(e) => Out::Err(sm4err(e)),
            })
        }
        // sm4modehist <mode> <key> e:<iv>:<data> d:<iv>:<data> ... : one mode object, a sequence of calls
        "sm4modehist" => {
            let c = match Sm4CipherMode::new(&unhex(t[2]), mode_of(t[1])) {
                Ok(c) => c,
                Err(e) => return Some(Out::Err(sm4err(e))),
            };
            let mut rs = vec![];
            for op in &t[3..] {
                let parts: Vec<&str> = op.split(':').collect();
                let iv = unhex(parts[1]);
                let data = unhex(parts[2]);
                let r = if parts[0] == "e" { c.encrypt(&data, &iv) } else { c.decrypt(&data, &iv) };
                rs.push(match r {
                    Ok(v) => hx(&v),
                    Err(e) => format!("ERR:{}", sm4err(e)),
                });
            }
            Some(Out::Ok(rs.join(" ")))
        }
        // sm4rt <mode> <key> <iv> <data> : encrypt then decrypt with a fresh object; prints ct and pt
        "sm4rt" => {
            let key = unhex(t[2]);
            let iv = unhex(t[3]);
            let data = unhex(t[4]);
            let c = match Sm4CipherMode::new(&key, mode_of(t[1])) {
                Ok(c) => c,
                Err(e) => return Some(Out::Err(sm4err(e))),
            };
            let ct = match c.encrypt(&data, &iv) {
                Ok(v) => v,
                Err(e) => return Some(Out::Err(sm4err(e))),
            };
            let d = Sm4CipherMode::new(&key, mode_of(t[1])).ok().unwrap();
            Some(match d.decrypt(&ct, &iv) {
                Ok(v) => Out::Ok(format!("{} {}", hx(&ct), hx(&v))),
                Err(e) => Out::Err(sm4err(e)),
            })
        }
        // zuc <key> <iv> <n1> <n2> ... : successive generate_keystream calls on one generator
        "zuc" => {
            let mut z = gm_zuc::ZUC::new(&unhex(t[1]), &unhex(t[2]));
            let mut rs = vec![];
            for n in &t[3..] {
                let n: usize = n.parse().unwrap();
                rs.push(words(&z.generate_keystream(n)));
            }
            Some(Out::Ok(rs.join(" ")))
        }
        // eea <ck> <count> <bearer> <dir> <len> <words>
        "eea" => {
            let p = |s: &str| u32::from_str_radix(s, 16).unwrap();
            let mut e = gm_zuc::eea::EEA::new(&unhex(t[1]), p(t[2]), p(t[3]), p(t[4]));
            let r = e.encrypt(&parse_words(t[6]), p(t[5]));
            Some(Out::Ok(words(&r)))
        }
        // eea2 ... : encrypt, then encrypt the result again with a fresh object (involution)
        "eea2" => {
            let p = |s: &str| u32::from_str_radix(s, 16).unwrap();
            let mut e = gm_zuc::eea::EEA::new(&unhex(t[1]), p(t[2]), p(t[3]), p(t[4]));
            let r = e.encrypt(&parse_words(t[6]), p(t[5]));
            let mut e2 = gm_zuc::eea::EEA::new(&unhex(t[1]), p(t[2]), p(t[3]), p(t[4]));
            let r2 = e2.encrypt(&r, p(t[5]));
            Some(Out::Ok(format!("{} {}", words(&r), words(&r2))))
        }
        // eia <ik> <count> <bearer> <dir> <len> <words>
        // eia_big <key> <count> <bearer> <dir> <length> <seed>: 128-EIA3 over a message SYNTHESISED in-process
        // (word i = 0x9e3779b9 * (i + 1) + seed, ceil(LENGTH/32) words): for LENGTH next to 2^32 (512 MiB of message)
        "eia_big" => {
            let p = |s: &str| u32::from_str_radix(s, 16).unwrap();
            let len = p(t[5]);
            let nw = ((len as u64 + 31) / 32) as usize;
            let seed = p(t[6]);
            let m: Vec<u32> = (0..nw).map(|i| 0x9e3779b9u32.wrapping_mul((i as u32).wrapping_add(1)).wrapping_add(seed)).collect();
            let mut e = gm_zuc::eia::EIA::new(&unhex(t[1]), p(t[2]), p(t[3]), p(t[4]));
            let r = e.gen_mac(&m, len);
            Some(Out::Ok(format!("{:08x}", r)))
        }
        "eia" => {
            let p = |s: &str| u32::from_str_radix(s, 16).unwrap();
            let mut e = gm_zuc::eia::EIA::new(&unhex(t[1]), p(t[2]), p(t[3]), p(t[4]));
            let r = e.gen_mac(&parse_words(t[6]), p(t[5]));
            Some(Out::Ok(format!("{:08x}", r)))
        }
        _ => None,
    }
}
