"""Small pure-Python SM9 BN-curve arithmetic used only to CRAFT inputs (never as an oracle)."""
p = 0xB640000002A3A6F1D603AB4FF58EC74521F2934B1A7AEEDBE56F9B27E351457D
N = 0xB640000002A3A6F1D603AB4FF58EC74449F2934B18EA8BEEE56EE19CD69ECF25
R = 1 << 256
P1 = (0x93DE051D62BF718FF5ED0704487D01D6E1E4086909DC3280E8C4E4817C66DDDD,
      0x21FE8DDA4F21E607631065125C395BBC1C1C00CBFA6024350C464CD70A3EA616)
# Fp2 elements are (c0, c1) = c0 + c1*u, u^2 = -2
P2 = ((0x3722755292130B08D2AAB97FD34EC120EE265948D19C17ABF9B7213BAF82D65B, 0x85AEF3D078640C98597B6027B441A01FF1DD2C190F5E93C454806C11D8806141),
      (0xA7CF28D519BE3DA65F3170153D278FF247EFBA98A71A08116215BBA5C999A7C7, 0x17509B092E845C1266BA0D262CBEE6ED0736A96FA347C8BD856DC76B84EBEB96))


def h32(x):
    return '%064x' % x


# ---- G1 (y^2 = x^3 + 5 over Fp)
def g1_add(A, B):
    if A is None:
        return B
    if B is None:
        return A
    x1, y1 = A
    x2, y2 = B
    if x1 == x2:
        if (y1 + y2) % p == 0:
            return None
        lam = 3 * x1 * x1 * pow(2 * y1, -1, p) % p
    else:
        lam = (y2 - y1) * pow(x2 - x1, -1, p) % p
    x3 = (lam * lam - x1 - x2) % p
    return (x3, (lam * (x1 - x3) - y1) % p)


def g1_mul(k, A):
    Rr = None
    while k:
        if k & 1:
            Rr = g1_add(Rr, A)
        A = g1_add(A, A)
        k >>= 1
    return Rr


def g1_neg(A):
    return None if A is None else (A[0], (-A[1]) % p)


def g1_jac(A, z):
    if A is None:
        return '%s:%s:%s' % (h32(R % p), h32(R % p), h32(0))
    x, y = A
    return ':'.join(h32(v * R % p) for v in (x * z * z % p, y * z * z * z % p, z % p))


# ---- Fp2
def f2add(a, b): return ((a[0] + b[0]) % p, (a[1] + b[1]) % p)
def f2sub(a, b): return ((a[0] - b[0]) % p, (a[1] - b[1]) % p)
def f2neg(a): return ((-a[0]) % p, (-a[1]) % p)
def f2mul(a, b): return ((a[0] * b[0] - 2 * a[1] * b[1]) % p, (a[0] * b[1] + a[1] * b[0]) % p)
def f2inv(a):
    d = pow(a[0] * a[0] + 2 * a[1] * a[1], -1, p)
    return (a[0] * d % p, (-a[1]) * d % p)
def f2scal(k, a): return (k * a[0] % p, k * a[1] % p)
F2ZERO = (0, 0)


# ---- G2 (y^2 = x^3 + 5u over Fp2)
def g2_add(A, B):
    if A is None:
        return B
    if B is None:
        return A
    x1, y1 = A
    x2, y2 = B
    if x1 == x2:
        if f2add(y1, y2) == F2ZERO:
            return None
        lam = f2mul(f2scal(3, f2mul(x1, x1)), f2inv(f2scal(2, y1)))
    else:
        lam = f2mul(f2sub(y2, y1), f2inv(f2sub(x2, x1)))
    x3 = f2sub(f2sub(f2mul(lam, lam), x1), x2)
    return (x3, f2sub(f2mul(lam, f2sub(x1, x3)), y1))


def g2_mul(k, A):
    Rr = None
    while k:
        if k & 1:
            Rr = g2_add(Rr, A)
        A = g2_add(A, A)
        k >>= 1
    return Rr


def g2_neg(A):
    return None if A is None else (A[0], f2neg(A[1]))


def f2raw(a):
    return '%s,%s' % (h32(a[0] * R % p), h32(a[1] * R % p))


def g2_jac(A, z):
    """z is an Fp2 element"""
    if A is None:
        return '%s:%s:%s' % (f2raw((1, 0)), f2raw((1, 0)), f2raw((0, 0)))
    x, y = A
    z2 = f2mul(z, z)
    z3 = f2mul(z2, z)
    return ':'.join(f2raw(v) for v in (f2mul(x, z2), f2mul(y, z3), z))


def g1_bytes(A):
    return '04' + h32(A[0]) + h32(A[1])


# ---- SM3 and the SM9 hash-to-range functions (independent of the code under test; used only to CRAFT inputs,
#      e.g. master keys related to an identity by k = +-H1(ID||hid))
def _rotl(x, n):
    n %= 32
    return ((x << n) | (x >> (32 - n))) & 0xffffffff


def sm3(msg):
    iv = [0x7380166f, 0x4914b2b9, 0x172442d7, 0xda8a0600, 0xa96f30bc, 0x163138aa, 0xe38dee4d, 0xb0fb0e4e]
    ml = len(msg) * 8
    msg = bytes(msg) + b'\x80'
    msg += b'\x00' * ((56 - len(msg) % 64) % 64) + ml.to_bytes(8, 'big')
    v = iv
    for off in range(0, len(msg), 64):
        w = [int.from_bytes(msg[off + 4 * i:off + 4 * i + 4], 'big') for i in range(16)]
        for j in range(16, 68):
            x = w[j - 16] ^ w[j - 9] ^ _rotl(w[j - 3], 15)
            w.append((x ^ _rotl(x, 15) ^ _rotl(x, 23)) ^ _rotl(w[j - 13], 7) ^ w[j - 6])
        w1 = [w[j] ^ w[j + 4] for j in range(64)]
        a, b, c, d, e, f, g, h = v
        for j in range(64):
            t = 0x79cc4519 if j < 16 else 0x7a879d8a
            ss1 = _rotl((_rotl(a, 12) + e + _rotl(t, j)) & 0xffffffff, 7)
            ss2 = ss1 ^ _rotl(a, 12)
            ff = (a ^ b ^ c) if j < 16 else ((a & b) | (a & c) | (b & c))
            gg = (e ^ f ^ g) if j < 16 else ((e & f) | (~e & 0xffffffff & g))
            tt1 = (ff + d + ss2 + w1[j]) & 0xffffffff
            tt2 = (gg + h + ss1 + w[j]) & 0xffffffff
            d = c; c = _rotl(b, 9); b = a; a = tt1
            h = g; g = _rotl(f, 19); f = e; e = tt2 ^ _rotl(tt2, 9) ^ _rotl(tt2, 17)
        v = [x ^ y for x, y in zip(v, [a, b, c, d, e, f, g, h])]
    return b''.join(x.to_bytes(4, 'big') for x in v)


def hash_to_range(prefix, z):
    ha = sm3(bytes([prefix]) + z + (1).to_bytes(4, 'big')) + sm3(bytes([prefix]) + z + (2).to_bytes(4, 'big'))[:8]
    return int.from_bytes(ha, 'big') % (N - 1) + 1


def H1(idb, hid):
    return hash_to_range(1, bytes(idb) + bytes([hid]))
