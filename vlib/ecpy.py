"""Small pure-Python SM2 curve arithmetic used only to CRAFT inputs (never as an oracle)."""
p = 0xFFFFFFFEFFFFFFFFFFFFFFFFFFFFFFFFFFFFFFFF00000000FFFFFFFFFFFFFFFF
a = p - 3
b = 0x28E9FA9E9D9F5E344D5A9E4BCF6509A7F39789F515AB8F92DDBCBD414D940E93
n = 0xFFFFFFFEFFFFFFFFFFFFFFFFFFFFFFFF7203DF6B21C6052B53BBF40939D54123
G = (0x32C4AE2C1F1981195F9904466A39C9948FE30BBFF2660BE1715A4589334C74C7,
     0xBC3736A2F4F6779C59BDCEE36B692153D0A9877CC62A474002DF32E52139F0A0)
R = 1 << 256


def add(P, Q):
    if P is None:
        return Q
    if Q is None:
        return P
    x1, y1 = P
    x2, y2 = Q
    if x1 == x2:
        if (y1 + y2) % p == 0:
            return None
        lam = (3 * x1 * x1 + a) * pow(2 * y1, -1, p) % p
    else:
        lam = (y2 - y1) * pow(x2 - x1, -1, p) % p
    x3 = (lam * lam - x1 - x2) % p
    return (x3, (lam * (x1 - x3) - y1) % p)


def mul(k, P):
    R_ = None
    while k:
        if k & 1:
            R_ = add(R_, P)
        P = add(P, P)
        k >>= 1
    return R_


def neg(P):
    return None if P is None else (P[0], (-P[1]) % p)


def on_curve(x, y):
    return (y * y - (x * x * x + a * x + b)) % p == 0


def lift_x(x):
    v = (x * x * x + a * x + b) % p
    y = pow(v, (p + 1) // 4, p)
    return y if y * y % p == v else None


def h32(x):
    return '%064x' % x


def enc(P, compressed=False):
    if compressed:
        return ('02' if P[1] % 2 == 0 else '03') + h32(P[0])
    return '04' + h32(P[0]) + h32(P[1])


def jac(P, z):
    """raw Jacobian representation in Montgomery form 'x:y:z' of affine P with Z = z (P None -> infinity with junk x,y)"""
    if P is None:
        return '%s:%s:%s' % (h32(R % p), h32(R % p), h32(0))
    x, y = P
    X = x * z * z % p
    Y = y * z * z * z % p
    return ':'.join(h32(v * R % p) for v in (X, Y, z % p))


# ---- points with a tiny y (so that y + p < 2^256 is an out-of-range encoding of the same residue): solve x^3 + a x + b - y^2 = 0
def _pmulmod(s, t, c):
    """product of two polynomials of degree <= 2 modulo x^3 + a x + c (coefficients low to high) over F_p"""
    d = [0] * 5
    for i in range(3):
        for j in range(3):
            d[i + j] = (d[i + j] + s[i] * t[j]) % p
    # x^3 = -a x - c ; x^4 = -a x^2 - c x
    r = [d[0], d[1], d[2]]
    r[0] = (r[0] - c * d[3]) % p
    r[1] = (r[1] - a * d[3] - c * d[4]) % p
    r[2] = (r[2] - a * d[4]) % p
    return r


def _pgcd(f, g):
    def trim(v):
        while v and v[-1] % p == 0:
            v = v[:-1]
        return v
    f, g = trim(list(f)), trim(list(g))
    while g:
        # f mod g
        while len(f) >= len(g) and f:
            k = f[-1] * pow(g[-1], -1, p) % p
            sh = len(f) - len(g)
            f = trim([(f[i] - (k * g[i - sh] if i >= sh else 0)) % p for i in range(len(f))])
        f, g = g, f
    return f


def small_y_points(count=3):
    out = []
    y = 1
    while len(out) < count and y < 200:
        c = (b - y * y) % p
        # x^p mod (x^3 + a x + c)
        acc, base, e = [1, 0, 0], [0, 1, 0], p
        while e:
            if e & 1:
                acc = _pmulmod(acc, base, c)
            base = _pmulmod(base, base, c)
            e >>= 1
        g = _pgcd([c, a, 0, 1], [(acc[0]) % p, (acc[1] - 1) % p, acc[2]])
        x = None
        if len(g) == 2:
            x = (-g[0]) * pow(g[1], -1, p) % p
        elif len(g) == 3:
            # monic quadratic x^2 + B x + C
            inv = pow(g[2], -1, p)
            B, C = g[1] * inv % p, g[0] * inv % p
            disc = (B * B - 4 * C) % p
            sq = pow(disc, (p + 1) // 4, p)
            if sq * sq % p == disc:
                x = (-B + sq) * pow(2, -1, p) % p
        if x is not None and on_curve(x, y):
            out.append((x, y))
        y += 1
    return out


def cubic_roots(c0):
    """roots x in F_p of x^3 + a x + c0"""
    acc, base, e = [1, 0, 0], [0, 1, 0], p
    while e:
        if e & 1:
            acc = _pmulmod(acc, base, c0)
        base = _pmulmod(base, base, c0)
        e >>= 1
    g = _pgcd([c0, a, 0, 1], [acc[0] % p, (acc[1] - 1) % p, acc[2]])
    if len(g) == 2:
        return [(-g[0]) * pow(g[1], -1, p) % p]
    if len(g) == 3:
        inv = pow(g[2], -1, p)
        B, C = g[1] * inv % p, g[0] * inv % p
        disc = (B * B - 4 * C) % p
        sq = pow(disc, (p + 1) // 4, p)
        if sq * sq % p == disc:
            i2 = pow(2, -1, p)
            return [(-B + sq) * i2 % p, (-B - sq) * i2 % p]
    if len(g) == 4:
        # all three roots in F_p: split with a random shift
        import random
        r = random.Random(c0)
        for _ in range(40):
            dl = r.randrange(p)
            # (x + dl)^((p-1)/2) mod f
            acc, base, e = [1, 0, 0], [dl, 1, 0], (p - 1) // 2
            while e:
                if e & 1:
                    acc = _pmulmod(acc, base, c0)
                base = _pmulmod(base, base, c0)
                e >>= 1
            h = _pgcd([c0, a, 0, 1], [(acc[0] - 1) % p, acc[1], acc[2]])
            if len(h) in (2, 3):
                rts = []
                if len(h) == 2:
                    rts.append((-h[0]) * pow(h[1], -1, p) % p)
                else:
                    inv = pow(h[2], -1, p)
                    B, C = h[1] * inv % p, h[0] * inv % p
                    disc = (B * B - 4 * C) % p
                    sq = pow(disc, (p + 1) // 4, p)
                    i2 = pow(2, -1, p)
                    rts += [(-B + sq) * i2 % p, (-B - sq) * i2 % p]
                return [x for x in rts if (x * x * x + a * x + c0) % p == 0]
    return []


def same_y_partner(P):
    """another curve point with the same y and a different x (roots of x^3 + a x + b - y^2 other than x1), or None"""
    x1, y1 = P
    disc = (12 - 3 * x1 * x1) % p          # t^2 + x1 t + (x1^2 + a) = 0 with a = -3
    sq = pow(disc, (p + 1) // 4, p)
    if sq * sq % p != disc:
        return None
    x2 = (-x1 + sq) * pow(2, -1, p) % p
    return (x2, y1) if on_curve(x2, y1) and x2 != x1 else None


def near_miss_points(rng, bits, mont=True):
    """off-curve (x, y') such that y'^2 and x^3 + a x + b differ in exactly ONE bit (position from `bits`) of their Montgomery
    (mont=True) or canonical representation: a comparison that looks at part of the words only accepts them"""
    out = []
    for bit in bits:
        for _ in range(40):
            x = rng.randrange(p)
            rhs = (x * x * x + a * x + b) % p
            rep = rhs * R % p if mont else rhs
            rep2 = rep ^ (1 << bit)
            if rep2 >= p:
                continue
            v = rep2 * pow(R, -1, p) % p if mont else rep2
            y = pow(v, (p + 1) // 4, p)
            if y * y % p == v and not on_curve(x, y):
                out.append((bit, x, y))
                break
    return out


def points_with_rhs(values):
    """curve points (x, y) with y^2 = x^3 + a x + b equal to a prescribed value v (for v a square): solves the cubic"""
    out = []
    for v in values:
        y = pow(v, (p + 1) // 4, p)
        if y * y % p != v % p:
            continue
        for x in cubic_roots((b - v) % p):
            if on_curve(x, y):
                out.append((x, y))
                break
    return out
