"""Generators for the SM9 family: C09 C10 C12 C13 C16 C17 and the SM9 parts of C14 / C20."""
import itertools
from . import sm9py as S
from .gens_sym import hx, rb, std_vectors

N, P = S.N, S.p
H = S.h32
R = S.R


def rs(rng, lo=1, hi=None):
    return rng.randrange(lo, hi or N - 1)


def good_r(rng):
    # in [1, N-2] and with a non-zero low limb (the implementation's sampler skips candidates whose low 64 bits are 0)
    while True:
        k = rng.randrange(1, N - 1)
        if k & ((1 << 64) - 1):
            return H(k)


def mont(x):
    return H(x * R % P)


def ids(rng):
    return [hx(b'Alice'), hx(b'Bob'), hx(b''), hx(b'x' * 300), hx(rb(rng, rng.randint(1, 40)))]


def sv(name):
    return [d for n_, d in std_vectors(name)]


def zero_limb_scalars(rng):
    """ephemeral scalars with all-zero interior / top 64-bit limbs (low limb non-zero, as the sampler requires)"""
    l = lambda: rng.randrange(1, 1 << 64)
    top = lambda: rng.randrange(1, N >> 193)
    vals = [(top() << 192) | (l() << 128) | l(), (top() << 192) | (l() << 64) | l(), (top() << 192) | l(),
            (l() << 128) | l(), (l() << 64) | l(), l(), 1, 2, (1 << 64) + 1, (1 << 128) + 1, (1 << 192) + 1]
    return [H(v) for v in vals]


def crafted_masters(rng, idb, hid, tier='quick'):
    """master keys aimed at the exceptional branches of extraction / of Q = [H1]P + Ppub (H1 computed by the
    independent Python SM3): (name, k, extraction_defined)"""
    h1 = S.H1(idb, hid)
    out = [('k=H1 (Q is a doubling)', h1, True), ('k=H1+1', (h1 + 1) % N, True), ('k=H1-1', (h1 - 1) % N, True),
           ('k=N-H1 (t1=0)', (N - h1) % N, False), ('k=N-H1+1 (t1=1)', (N - h1 + 1) % N, True), ('k=N-H1-1 (t1=N-1)', (N - h1 - 1) % N, True),
           ('k=2^128', 1 << 128, True), ('k=2^192', 1 << 192, True), ('k=c*2^128', (rng.randrange(1, 1 << 60) << 128), True),
           ('k=2^64', 1 << 64, True), ('k=c*2^64 (zero low limb)', rng.randrange(1, 1 << 190) << 64, True)]
    return [(n_, k, ok) for n_, k, ok in out if 1 <= k <= N - 1]


# ----------------------------------------------------------------------------- C16
def gen_c16(tier, rng):
    qmax = ((1 << 320) - 1) // (N - 1)
    qs = [0, 1, 2, 1 << 63, qmax - 1, qmax] + [rng.randrange(qmax) for _ in range(20 if tier == 'thorough' else 4)]
    for q in qs:
        for r in (0, 1, 2, N - 3, N - 2, rng.randrange(N - 1)):
            ha = q * (N - 1) + r
            if ha < (1 << 320):
                yield ('Ha=q(N-1)+r', 'n_from_hash %080x' % ha, None)
    for top in ((1 << 128) - 1, (1 << 128) - 2, 1 << 127):
        for _ in range(4):
            yield ('Ha-top-limbs', 'n_from_hash %080x' % ((top << 192) | rng.getrandbits(192)), None)
    for _ in range(300 if tier == 'thorough' else 60):
        yield ('Ha-random', 'n_from_hash %080x' % rng.getrandbits(320), None)
    yield ('Ha-edge', 'n_from_hash %080x' % 0, None)
    yield ('Ha-edge', 'n_from_hash %080x' % ((1 << 320) - 1), None)
    yield ('Ha-edge', 'n_from_hash %080x' % (N - 1), None)
    yield ('Ha-edge', 'n_from_hash %080x' % N, None)
    # extra bytes beyond 40 are ignored by the code; shorter input panics (recorded known limitation, no error channel)
    yield ('Ha-longer-than-40', 'n_from_hash %s' % hx(rb(rng, 64)), None)
    for ln in (range(0, 301) if tier == 'thorough' else list(range(0, 70)) + [127, 128, 300]):
        idb = rb(rng, ln)
        hid = rng.choice(['01', '02', '03'])
        yield ('H1-id-len', 's9_hash1 %s %s' % (hx(idb), hid), None)
        if ln % 7 == 0:
            yield ('H2', 's9_hash2 %s %s' % (hx(idb), hx(rb(rng, 384))), None)
    # master keys crafted so that the extraction scalar t2 = k (H1 + k)^-1 is a chosen value near the group order / small:
    # k = t2 H1 (1 - t2)^-1  (the fixed-base multiplications then run on N - 74, N - 10, N - 1, 2, ...)
    for kind, hid in (('sign', 1), ('enc', 3), ('exch', 2)):
        idb = rng.choice([b'Alice', b'Bob', rb(rng, 7)])
        h1 = S.H1(idb, hid)
        for t2 in (N - 74, N - 10, N - 1, N - 2, N - 37, N - 64, 2, 3, 1 << 64, 1 << 128):
            if (1 - t2) % N == 0:
                continue
            k_ = t2 * h1 % N * pow((1 - t2) % N, -1, N) % N
            if 1 <= k_ <= N - 1 and (h1 + k_) % N:
                yield ('extract-scalar-target', 's9_extract %s %s %s' % (kind, H(k_), hx(idb)), None)
    # H1 / extraction for a long identity and then SHORTER ones on one thread (a reused scratch buffer must not leak its tail)
    long_id, mid_id, short_id = rb(rng, 40), rb(rng, 11), b'Bob'
    yield ('H1-long-then-shorter-history', 'seq s9_hash1 %s 01 ; %s 01 ; %s 01 ; %s 03 ; %s 01' % (hx(long_id), hx(mid_id), hx(short_id), hx(long_id[:5]), hx(short_id)), None)
    k_ = rs(rng)
    yield ('extract-long-then-shorter-history', 'seq s9_extract sign %s %s ; sign %s %s ; enc %s %s ; exch %s %s' % (
        H(k_), hx(long_id), H(k_), hx(b'Alice'), H(k_), hx(short_id), H(k_), hx(b'Al')), None)
    # extraction: Annex values
    for d in sv('sm9sig.full'):
        yield ('std-vector-extract', 's9_extract sign %s %s' % (d['ks'], d['id']), 'OK ' + d['ds'])
    yield ('std-vector-extract-enc', 's9_extract enc 0001edee3778f441f8dea3d9fa0acc4e07ee36c93f9a08618af4ad85cede1c22 426f62',
           'OK 115bae85f5d8bc6c3dbd9e5342979acccf3c2f4f28420b1cb4f8c0b59a19b158,94736acd2c8c8796cc4785e938301a139a059d3537b6414140b2d31eecf41683;27538a62e7f7bfb51dce08704796d94c9d56734f119ea44732b50e31cdeb75c1,7aa5e47570da7600cd760a0cf7beaf71c447f3844753fe74fa7ba92ca7d3b55f')
    for _ in range(12 if tier == 'thorough' else 3):
        k = rs(rng)
        for kind in ('sign', 'enc', 'exch'):
            yield ('extract-' + kind, 's9_extract %s %s %s' % (kind, H(k), hx(rb(rng, rng.randint(0, 30)))), None)
    for k in (1, 2, N - 2, N - 1):
        yield ('extract-edge-master', 's9_extract sign %s %s' % (H(k), hx(b'Alice')), None)
    for kind in ('sign', 'enc', 'exch'):
        for idb in (b'Alice', b'', rb(rng, 17)):
            yield ('extract-H1+k=0', 's9_extract_none %s %s' % (kind, hx(idb)), None)
    for kind, hid in (('sign', 1), ('enc', 3), ('exch', 2)):
        for idb in ((b'Alice', b'', rb(rng, 17)) if tier == 'thorough' else (b'Alice', rb(rng, 9))):
            for name, k, ok in crafted_masters(rng, idb, hid):
                yield ('extract-crafted-master ' + name.split(' ')[0], 's9_extract %s %s %s' % (kind, H(k), hx(idb) or '-'), None if ok else 'ERR')


# ----------------------------------------------------------------------------- C13
def tower_vals(rng, n, tier):
    """n-component tower elements (canonical Montgomery limbs): each subset-of-zero pattern for small n, structured + random"""
    out = []
    def comp(kind):
        return 0 if kind == 0 else rng.randrange(1, P)
    if n <= 4:
        for mask in range(1 << n):
            out.append([comp((mask >> i) & 1) for i in range(n)])
    else:
        out.append([0] * n)
        for i in range(n):
            v = [0] * n; v[i] = rng.randrange(1, P); out.append(v)
        for grp in ([0, 1, 2, 3], [4, 5, 6, 7], [8, 9, 10, 11], [0, 1, 2, 3, 4, 5, 6, 7]):
            v = [rng.randrange(1, P) for _ in range(n)]
            for i in grp:
                v[i] = 0
            out.append(v)
    for _ in range(6 if tier == 'thorough' else 2):
        out.append([rng.randrange(P) for _ in range(n)])
    out.append([P - 1] * n)
    out.append([1] + [0] * (n - 1))
    return [','.join(H(x) for x in v) for v in out]


def gen_c13(tier, rng):
    bl = [0, 1, 1 << 32, 1 << 63, (1 << 64) - 1]
    vals = set([0, 1, 2, N - 1, N - 2, P - 1, P - 2])
    for m in (P, N, (1 << 256) - P, (1 << 256) - N):
        for dlt in range(-3, 4):
            if 0 <= m + dlt < (1 << 256):
                vals.add(m + dlt)
    for _ in range(20 if tier == 'thorough' else 6):
        vals.add(sum(rng.choice(bl) << (64 * i) for i in range(4)))
    vals = sorted(vals) + [rng.getrandbits(256) for _ in range(10 if tier == 'thorough' else 4)]
    pairs = [(a, b) for a in vals for b in vals]
    rng.shuffle(pairs)
    for a, b in pairs[: 1500 if tier == 'thorough' else 250]:
        op = rng.choice(['n_add', 'n_sub', 'n_mul', 's9fp mul', 's9fp add', 's9fp sub', 's9u256 add', 's9u256 sub', 's9u256 mul', 's9u256 cmp'])
        yield ('modN/Fp-boundary', '%s %s %s' % (op, H(a), H(b)), None)
    # sums that land exactly on / next to the modulus, differences that land on / next to zero (the conditional-subtraction boundary)
    for M_, addop, subop in ((N, 'n_add', 'n_sub'), (P, 's9fp add', 's9fp sub')):
        for a in [1, 2, 3, M_ - 1, M_ - 2, (M_ + 1) // 2, M_ // 2, 1 << 255, (1 << 64) - 1, 1 << 64, 1 << 128, 1 << 192] + [rng.randrange(1, M_) for _ in range(6 if tier == 'thorough' else 2)]:
            if not (0 < a < M_):
                continue
            for dlt in (-1, 0, 1):
                b = M_ - a + dlt
                if 0 <= b < M_:
                    yield ('sum-hits-modulus%+d' % dlt, '%s %s %s' % (addop, H(a), H(b)), None)
                b2 = a + dlt
                if 0 <= b2 < M_:
                    yield ('difference-hits-zero%+d' % dlt, '%s %s %s' % (subop, H(a), H(b2)), None)
    for a in vals[:: 1 if tier == 'thorough' else 3]:
        for op in ('neg', 'dbl', 'tri', 'div2', 'sqr', 'to_mont', 'from_mont'):
            yield ('Fp-unary', 's9fp %s %s' % (op, H(a)), None)
    for a in [1, 2, N - 1, N - 2] + [rs(rng) for _ in range(6 if tier == 'thorough' else 2)]:
        yield ('modN-inverse', 'n_inv %s' % H(a), None)
        yield ('modN-pow', 'n_pow %s %s' % (H(a), H(rng.getrandbits(256))), None)
        yield ('Fp-inverse', 's9fp inv %s' % H(a), None)
        yield ('Fp-pow', 's9fp pow %s %s' % (H(a), H(rng.getrandbits(256))), None)
    # tower
    for name, n, binops, unops in (('s9fp2', 2, ['add', 'sub', 'mul', 'div', 'mul_u', 'mul_fp'], ['sqr', 'neg', 'dbl', 'tri', 'div2', 'inv', 'conjugate', 'a_mul_u', 'sqr_u']),
                                   ('s9fp4', 4, ['add', 'sub', 'mul', 'mul_v', 'mul_fp', 'mul_fp2'], ['sqr', 'neg', 'dbl', 'tri', 'div2', 'inv', 'a_mul_v', 'conjugate', 'sqr_v']),
                                   ('s9fp12', 12, ['add', 'sub', 'mul'], ['sqr', 'neg', 'dbl', 'tri', 'div2', 'inv', 'frobenius2', 'frobenius6'])):
        tv = tower_vals(rng, n, tier)
        for a in tv:
            for op in unops:
                if op == 'inv' and set(a.split(',')) == {H(0)}:
                    continue
                yield ('%s-%s-zero-patterns' % (name, op), '%s %s %s' % (name, op, a), None)
            b = rng.choice(tv)
            for op in (binops if tier == 'thorough' else rng.sample(binops, 2)):
                if op == 'div' and set(b.split(',')) == {H(0)}:
                    continue
                yield ('%s-%s' % (name, op), '%s %s %s %s' % (name, op, a, b), None)
    tv12 = tower_vals(rng, 12, tier)
    for a in tv12[:6]:
        yield ('s9fp12-pow', 's9fp12 pow %s %s' % (a, H(rng.randrange(N))), None)
        yield ('s9fp12-pow-zero-limb-exponent', 's9fp12 pow %s %s' % (a, rng.choice(zero_limb_scalars(rng))), None)
        yield ('s9fp12-bytes', 's9fp12_bytes %s' % a, None)
        lw = ';'.join(rng.choice(tower_vals(rng, 2, 'quick')) for _ in range(3))
        yield ('s9fp12-line_mul', 's9fp12 line_mul %s %s' % (a, lw), None)
    # G1
    pts = [S.g1_mul(rs(rng), S.P1) for _ in range(8 if tier == 'thorough' else 3)] + [S.P1]
    for A in pts:
        z1, z2 = rng.randrange(1, P), rng.randrange(1, P)
        B = rng.choice(pts)
        cases = [('add-generic', A, B, z1, z2), ('add-equal-same-Z', A, A, z1, z1), ('add-equal-different-Z', A, A, z1, z2),
                 ('add-opposite', A, S.g1_neg(A), z1, z2), ('add-inf-left', None, A, 1, z2), ('add-inf-right', A, None, z1, 1),
                 ('add-inf-inf', None, None, 1, 1), ('add-affine', A, B, 1, 1),
                 ('add-equal-rhs-affine', A, A, z1, 1), ('add-equal-lhs-affine', A, A, 1, z2), ('add-equal-both-affine', A, A, 1, 1),
                 ('add-opposite-rhs-affine', A, S.g1_neg(A), z1, 1), ('add-generic-rhs-affine', A, B, z1, 1), ('add-generic-lhs-affine', A, B, 1, z2)]
        for label, X, Y, za, zb in cases:
            yield ('g1-' + label, 'g1 add %s %s' % (S.g1_jac(X, za), S.g1_jac(Y, zb)), None)
            yield ('g1-sub-' + label, 'g1 sub %s %s' % (S.g1_jac(X, za), S.g1_jac(Y, zb)), None)
        # representations whose STORED Z limbs are a small integer (Z = j/R: limbs [j,0,0,0] — the integer one, not the field one),
        # [0,1,0,0], or -1: as left and as right operand, with themselves, their negatives, under doubling / multiplication / encoding
        rinv = pow(R, -1, P)
        from .gens_sm2 import small_order_elements
        w3 = pow(2, (P - 1) // 3, P)
        # distinct points with the same y: (x, y), (w x, y), (w^2 x, y) (j = 0 curve); their sum is O
        for za, zb in ((1, 1), (z1, z2), (z1, 1)):
            Aw = (w3 * A[0] % P, A[1])
            yield ('g1-add-same-y-different-x', 'g1 add %s %s' % (S.g1_jac(A, za), S.g1_jac(Aw, zb)), None)
            yield ('g1-add-same-y-different-x', 'g1 sub %s %s' % (S.g1_jac(A, za), S.g1_jac(S.g1_neg(Aw), zb)), None)
            yield ('g1-add-same-y-different-x', 'g1 eq %s %s' % (S.g1_jac(A, za), S.g1_jac(Aw, zb)), None)
        for zs in [rinv, 2 * rinv % P, (1 << 64) * rinv % P, P - 1, (P - 1) * rinv % P] + small_order_elements(P):
            for lhs, rhs in ((S.g1_jac(B, z2), S.g1_jac(A, zs)), (S.g1_jac(A, zs), S.g1_jac(B, z2)), (S.g1_jac(A, zs), S.g1_jac(A, zs)),
                             (S.g1_jac(A, z1), S.g1_jac(A, zs)), (S.g1_jac(A, zs), S.g1_jac(S.g1_neg(A), zs)), (S.g1_jac(A, zs), S.g1_jac(S.g1_neg(A), z1))):
                yield ('g1-special-stored-Z', 'g1 add %s %s' % (lhs, rhs), None)
                yield ('g1-special-stored-Z', 'g1 sub %s %s' % (lhs, rhs), None)
            yield ('g1-special-stored-Z', 'g1 dbl %s' % S.g1_jac(A, zs), None)
            yield ('g1-special-stored-Z', 'g1 mul %s %s' % (S.g1_jac(A, zs), H(rng.getrandbits(64))), None)
            yield ('g1-special-stored-Z', 'g1 bytes %s' % S.g1_jac(A, zs), None)
            yield ('g1-special-stored-Z', 'g1 oncurve %s' % S.g1_jac(A, zs), None)
            yield ('g1-special-stored-Z', 'g1 eq %s %s' % (S.g1_jac(A, zs), S.g1_jac(A, z1)), None)
            yield ('g1-eq-' + label, 'g1 eq %s %s' % (S.g1_jac(X, za), S.g1_jac(Y, zb)), None) if X is not None and Y is not None else ('g1-dbl', 'g1 dbl %s' % S.g1_jac(A, z1), None)
        yield ('g1-dbl', 'g1 dbl %s' % S.g1_jac(A, z1), None)
        yield ('g1-neg', 'g1 neg %s' % S.g1_jac(A, z1), None)
        yield ('g1-oncurve', 'g1 oncurve %s' % S.g1_jac(A, z1), None)
        yield ('g1-oncurve-off', 'g1 oncurve %s' % S.g1_jac((A[0], (A[1] + 1) % P), z1), None)
        yield ('g1-bytes', 'g1 bytes %s' % S.g1_jac(A, z1), None)
        yield ('g1-raw', 'g1_raw add %s %s' % (S.g1_jac(A, z1), S.g1_jac(B, z2)), None)
    ks = [0, 1, 2, 15, 16, 17, 31, 32, 33, N - 1, N, N + 1, (1 << 256) - 1, 1 << 255]
    ks += [rng.getrandbits(256) for _ in range(8 if tier == 'thorough' else 2)]
    for k in ks:
        yield ('g1-gmul-scalar', 'g1 gmul %s' % H(k), None)
        yield ('g1-mul-scalar', 'g1 mul %s %s' % (S.g1_jac(rng.choice(pts), rng.randrange(1, P)), H(k)), None)
        yield ('g2-mul-scalar', 'g2 mul %s %s' % (S.g2_jac(S.P2, (1, 0)), H(k)), None) if k < 64 or tier == 'thorough' or k >= N - 1 else ('g1-gmul-scalar', 'g1 gmul %s' % H(k ^ 1), None)
    # every (window, digit) of the 5-bit recoding through point_mul and of the 7-bit recoding through g_mul
    step5 = 1 if tier == 'thorough' else 11
    c = 0
    for i in range(52):
        for dgt in range(1, 32):
            c += 1
            k = dgt << (5 * i)
            if k < (1 << 256) and (c % step5 == 0):
                yield ('booth5-window-digit', 'g1 mul %s %s' % (S.g1_jac(S.P1, 1), H(k)), None)
    step7 = 1 if tier == 'thorough' else 29
    c = 0
    for i in range(37):
        for dgt in range(1, 128):
            c += 1
            k = dgt << (7 * i)
            if k < (1 << 256) and (c % step7 == 0 or dgt in (1, 64)):
                yield ('booth7-table-entry', 'g1 gmul %s' % H(k), None)
    kk = rng.getrandbits(256)
    for w, n_ in ((5, 52), (7, 37)):
        for i in range(n_):
            yield ('booth-digits', 'booth %s %d %d' % (H(kk), w, i), None)
            yield ('booth-digits', 'booth %s %d %d' % ('ff' * 32, w, i), None)
    # G2
    qs = [S.g2_mul(rs(rng), S.P2) for _ in range(4 if tier == 'thorough' else 2)] + [S.P2]
    for A in qs:
        z1 = (rng.randrange(1, P), rng.randrange(P))
        z2 = (rng.randrange(1, P), rng.randrange(P))
        B = rng.choice(qs)
        one = (1, 0)
        cases = [('add-generic', A, B, z1, z2), ('add-mixed-affine-rhs', A, B, z1, one), ('add-equal-different-Z', A, A, z1, z2),
                 ('add-equal-same-Z', A, A, z1, z1), ('add-opposite', A, S.g2_neg(A), z1, z2), ('add-inf-left', None, A, one, z2),
                 ('add-inf-right', A, None, z1, one), ('add-affine', A, B, one, one),
                 ('add-equal-rhs-affine', A, A, z1, one), ('add-equal-lhs-affine', A, A, one, z2), ('add-equal-both-affine', A, A, one, one),
                 ('add-opposite-rhs-affine', A, S.g2_neg(A), z1, one), ('add-generic-lhs-affine', A, B, one, z2)]
        for label, X, Y, za, zb in cases:
            yield ('g2-' + label, 'g2 add %s %s' % (S.g2_jac(X, za), S.g2_jac(Y, zb)), None)
            yield ('g2-full-' + label, 'g2 addfull %s %s' % (S.g2_jac(X, za), S.g2_jac(Y, zb)), None)
            yield ('g2-sub-' + label, 'g2 sub %s %s' % (S.g2_jac(X, za), S.g2_jac(Y, zb)), None)
            if X is not None and Y is not None and not label.startswith('add-opposite'):   # P vs -P is the open finding D6: only through the `negate` form
                yield ('g2-eq-' + label, 'g2eq %s %s' % (S.g2_jac(X, za), S.g2_jac(Y, zb)), None)
        yield ('g2-dbl', 'g2 dbl %s' % S.g2_jac(A, z1), None)
        yield ('g2-neg', 'g2 neg %s' % S.g2_jac(A, z1), None)
        yield ('g2-eq-same', 'g2eq %s %s' % (S.g2_jac(A, z1), S.g2_jac(A, z2)), None)
        # D6 (open finding): point_equals(P, -P)
        yield ('g2-eq-negated', 'g2eq %s %s negate' % (S.g2_jac(A, z1), S.g2_jac(A, z2)), None)
        # D6, second form: distinct points sharing y: (x, y) and (w x, y) with w a primitive cube root of unity in Fp
        w_ = pow(2, (P - 1) // 3, P)
        yield ('g2-eq-shared-y', 'g2eq %s %s sharey' % (S.g2_jac(A, z1), S.g2_jac((S.f2scal(w_, A[0]), A[1]), z2)), None)
        yield ('g2-eq-shared-nothing', 'g2eq %s %s' % (S.g2_jac(A, z1), S.g2_jac((S.f2scal(w_, A[0]), S.f2neg(A[1])), z2)), None)
        yield ('g2-raw', 'g2_raw add %s %s' % (S.g2_jac(A, z1), S.g2_jac(B, z2)), None)
        # Z in special positions of Fp2: one component exactly one / the integer one in the stored limbs / zero / -1, the other arbitrary
        rinv2 = pow(R, -1, P)
        from .gens_sm2 import small_order_elements
        soe = small_order_elements(P)
        # distinct twist points with the same y: (x, y) and (w x, y), w^3 = 1 in Fp
        Aw = (S.f2scal(w_, A[0]), A[1])
        for za, zb in ((one, one), (z1, z2), (z1, one)):
            for opn in ('add', 'addfull', 'sub'):
                yield ('g2-add-same-y-different-x', 'g2 %s %s %s' % (opn, S.g2_jac(A, za), S.g2_jac(Aw if opn != 'sub' else S.g2_neg(Aw), zb)), None)
        for zs in [(1, rng.randrange(1, P)), (rinv2, 0), (rinv2, rng.randrange(1, P)), (0, 1), (0, rinv2), (P - 1, 0), (rng.randrange(1, P), 1), (2 * rinv2 % P, 0)] + [(v, 0) for v in soe] + [(0, soe[0])]:
            for lhs, rhs in ((S.g2_jac(B, z2), S.g2_jac(A, zs)), (S.g2_jac(A, zs), S.g2_jac(B, z2)), (S.g2_jac(A, zs), S.g2_jac(A, z1)), (S.g2_jac(A, zs), S.g2_jac(S.g2_neg(A), zs))):
                yield ('g2-special-stored-Z', 'g2 add %s %s' % (lhs, rhs), None)
                yield ('g2-special-stored-Z', 'g2 addfull %s %s' % (lhs, rhs), None)
            yield ('g2-special-stored-Z', 'g2 dbl %s' % S.g2_jac(A, zs), None)
            yield ('g2-special-stored-Z', 'g2 mul %s %s' % (S.g2_jac(A, zs), H(rng.getrandbits(40))), None)
    for j in (range(1, 201) if tier == 'thorough' else list(range(1, 80, 3)) + [74, 10, 37, 64, 128]):
        yield ('g1-gmul-near-order', 'g1 gmul %s' % H(N - j), None)
        if j % 2 == 0 or tier == 'thorough':
            yield ('g1-mul-near-order', 'g1 mul %s %s' % (S.g1_jac(S.P1, 1), H(N - j)), None)
    for j in (1, 2, 3, 10, 74):
        yield ('g2-mul-near-order', 'g2 gmul %s' % H(N - j), None)
    for op_ in ('dbl', 'neg', 'affine', 'bytes', 'oncurve'):
        yield ('g1-infinity-unary', 'g1 %s %s' % (op_, S.g1_jac(None, 1)), None)
    for k in [0, 1, 2, 3, N - 1, N, N + 1, rng.getrandbits(256)]:
        yield ('g2-gmul', 'g2 gmul %s' % H(k), None)


# ----------------------------------------------------------------------------- C12
def gen_c12(tier, rng):
    npair = 10 if tier == 'thorough' else 3
    scal = [1, 2, 3, N - 1, N - 2] + [rs(rng) for _ in range(npair)]
    for i, a in enumerate(scal[: 12 if tier == 'thorough' else 5]):
        b = rng.choice(scal)
        A = S.g1_mul(a, S.P1)
        B = S.g2_mul(b, S.P2)
        z1 = rng.choice([1, rng.randrange(1, P)])
        z2 = rng.choice([(1, 0), (rng.randrange(1, P), rng.randrange(P))])
        yield ('pairing-multiples' + ('-Z!=1' if z1 != 1 or z2 != (1, 0) else ''), 'pairing %s %s' % (S.g2_jac(B, z2), S.g1_jac(A, z1)), None)
    # Jacobian Z of Q in special positions of Fp2: purely "imaginary" c*u, real, and both components set
    B = S.g2_mul(rs(rng), S.P2)
    A = S.g1_mul(rs(rng), S.P1)
    rinv = pow(R, -1, P)
    for zq in ((0, 1), (0, rng.randrange(1, P)), (rng.randrange(1, P), 0), (P - 1, 0), (0, P - 1),
               # one component exactly 1 (or the integer one in the stored limbs), the other arbitrary: "affine" tests that look at c0 only
               (1, rng.randrange(1, P)), (1, 1), (rng.randrange(2, P), 1), (rinv, 0), (rinv, rng.randrange(1, P)), (rng.randrange(1, P), rinv), (1, P - 1),
               # Z of small multiplicative order (Z^3 = 1: the cube roots of unity of Fp; Z^4 = 1, Z^6 = 1)
               (pow(2, (P - 1) // 3, P), 0), (pow(2, 2 * (P - 1) // 3, P), 0), (P - pow(2, (P - 1) // 3, P), 0)):
        yield ('pairing-Q-Z-special', 'pairing %s %s' % (S.g2_jac(B, zq), S.g1_jac(A, 1)), None)
    for zp in (rinv, 2 * rinv % P, P - 1, (1 << 64) * rinv % P):
        yield ('pairing-P-Z-special', 'pairing %s %s' % (S.g2_jac(B, (1, 0)), S.g1_jac(A, zp)), None)
    # calls one after another on one thread: the value depends on the two points only, not on what was evaluated before
    z = (rng.randrange(1, P), rng.randrange(1, P))
    q1 = S.g2_jac(B, z)
    q1neg = S.g2_jac(S.g2_neg(B), S.f2neg(z))           # same stored X, Y as q1, Z negated: the point -B
    q1w = S.g2_jac(B, S.f2neg(z))                        # (X, -Y', ..): B again in another representation
    p1 = S.g1_jac(A, rng.randrange(1, P))
    p1b = S.g1_jac(A, 1)
    yield ('pairing-history', 'seq pairing %s %s ; %s %s ; %s %s ; %s %s ; %s %s' % (q1, p1, q1neg, p1, q1, p1b, q1w, p1b, q1, p1), None)
    yield ('pairing-history', 'seq pairing %s %s ; %s %s ; %s %s' % (S.g2_jac(S.P2, (1, 0)), S.g1_jac(S.P1, 1), S.g2_jac(S.g2_neg(S.P2), (P - 1, 0)), S.g1_jac(S.P1, 1),
           S.g2_jac(S.P2, (1, 0)), S.g1_jac(S.g1_neg(S.P1), P - 1)), None)
    Bn = S.g2_neg(B)
    yield ('pairing-history', 'seq pairing %s %s ; %s %s ; %s %s' % (S.g2_jac(B, (1, 0)), p1b, S.g2_jac(Bn, (1, 0)), p1b, S.g2_jac(B, (1, 0)), p1b), None)
    yield ('pairing-generators', 'pairing %s %s' % (S.g2_jac(S.P2, (1, 0)), S.g1_jac(S.P1, 1)), None)
    yield ('pairing-Q-infinity', 'pairing %s %s' % (S.g2_jac(None, (1, 0)), S.g1_jac(S.P1, 1)), None)
    yield ('pairing-P-infinity', 'pairing %s %s' % (S.g2_jac(S.P2, (1, 0)), S.g1_jac(None, 1)), None)
    yield ('pairing-raw', 'pairing_raw %s %s' % (S.g2_jac(S.P2, (1, 0)), S.g1_jac(S.P1, 1)), None)
    # the Annex value e(P1, Ppub-s) enters through the signature example (C09); bilinearity / order / non-degeneracy inside the library
    # a*b mod N with all-zero 64-bit limbs: e(P1,P2)^(ab) goes through Fp12::pow with that exponent
    for t_ in zero_limb_scalars(rng)[: 11 if tier == 'thorough' else 5]:
        a_ = rs(rng)
        b_ = int(t_, 16) * pow(a_, -1, N) % N
        yield ('bilinearity-exponent-with-zero-limbs', 's9_bilin %s %s' % (H(a_), H(b_)), 'OK bilinear=true order=true nondegenerate=true')
    for _ in range(12 if tier == 'thorough' else 3):
        yield ('bilinearity-in-library', 's9_bilin %s %s' % (H(rng.choice([rs(rng), rng.getrandbits(256), 1, N - 1])), H(rs(rng))), 'OK bilinear=true order=true nondegenerate=true')


# ----------------------------------------------------------------------------- C09
def gen_c09(tier, rng):
    for d in sv('sm9sig.full'):
        yield ('std-vector-fixed-r', 's9_sign %s %s %s %s' % (d['ks'], d['id'], d['msg'], d['r']), 'OK %s %s used=%s left=0' % (d['h'], d['s'], d['r']))
        yield ('std-vector-verify', 's9_verify %s %s %s %s %s' % (d['ks'], d['id'], d['msg'], d['h'], d['s']), 'OK')
    for i in range(6 if tier == 'thorough' else 2):
        ks = rs(rng)
        idb = rng.choice(ids(rng))
        for ln in ([0, 1, 31, 32, 55, 56, 64, 300, 1024] if tier == 'thorough' else [0, 1, 64]):
            msg = rb(rng, ln)
            yield ('fixed-r-sign', 's9_sign %s %s %s %s' % (H(ks), idb, hx(msg), good_r(rng)), None)
            yield ('sign-then-verify', 's9_sv %s %s %s %s' % (H(ks), idb, hx(msg), good_r(rng)), None)
        msg = rb(rng, 20)
        r = good_r(rng)
        base = 's9_sv %s %s %s %s' % (H(ks), idb, hx(msg), r)
        bits = range(97 * 8) if (tier == 'thorough' and i == 0) else rng.sample(range(97 * 8), 10)
        for bit in bits:
            yield ('bit-flip-h-or-S', base + ' flip %d' % bit, None)
        yield ('altered-msg', base + ' msg 0', None)
        yield ('altered-id', base + ' id 0', None)
        for hv in (0, N - 1, N, N + 1, (1 << 256) - 1):
            yield ('h-substituted', base + ' h %s' % H(hv), None)
        Q = S.g1_mul(rs(rng), S.P1)
        yield ('S-other-curve-point', base + ' s %s' % S.g1_bytes(Q), None)
        yield ('S-off-curve', base + ' s %s' % S.g1_bytes((Q[0], (Q[1] + 1) % P)), None)
        yield ('S-coords>=p', base + ' s 04%s%s' % (H(P), H(P + 1)), None)
        yield ('S-zero', base + ' s 04%s%s' % (H(0), H(0)), None)
    # ephemeral scalars with zero limbs (w = g^r through Fp12::pow, S = [l]ds through the 5-bit window)
    ks = rs(rng)
    for r_ in zero_limb_scalars(rng):
        yield ('r-with-zero-limbs', 's9_sign %s %s %s %s' % (H(ks), hx(b'Alice'), hx(rb(rng, 12)), r_), None)
        yield ('r-with-zero-limbs-sv', 's9_sv %s %s %s %s' % (H(ks), hx(b'Alice'), hx(rb(rng, 12)), r_), None)
    # master keys related to the signer's identity: P = [h1]P2 + Ppub-s hits the doubling branch; zero limbs in t2 = ks/t1
    for idb in (b'Alice', rb(rng, 11)):
        for name, k, ok in crafted_masters(rng, idb, 1):
            if ok:
                yield ('crafted-master ' + name.split(' ')[0], 's9_sv %s %s %s %s' % (H(k), hx(idb), hx(b'message'), good_r(rng)), None)
                yield ('crafted-master-sign ' + name.split(' ')[0], 's9_sign %s %s %s %s' % (H(k), hx(idb), hx(b'message'), good_r(rng)), None)
    # two signing domains with OPPOSITE master public keys (ks and N - ks) used alternately on one thread
    ks_ = rs(rng)
    yield ('opposite-master-keys-history', 'seq s9_sv %s %s %s %s ; %s %s %s %s ; %s %s %s %s' % (
        H(ks_), hx(b'Alice'), hx(b'm1'), good_r(rng), H(N - ks_), hx(b'Alice'), hx(b'm2'), good_r(rng), H(ks_), hx(b'Bob'), hx(b'm3'), good_r(rng)), None)
    # retry branch l = 0 cannot be constructed without a hash preimage: documented as not constructible
    yield ('out-of-range-candidates', 's9_sign %s %s %s %s' % (H(rs(rng)), hx(b'Alice'), hx(b'm'), ','.join(['00' * 32, H(N), 'ff' * 32, good_r(rng)])), None)


# ----------------------------------------------------------------------------- C10
def gen_c10(tier, rng):
    for d in sv('sm9enc.full'):
        yield ('std-vector-fixed-r', 's9_enc %s %s %s %s' % (d['ke'], d['id'], d['msg'], d['r']), 'OK %s used=%s left=0' % (d['ct'], d['r']))
        yield ('std-vector-decrypt', 's9_dec %s %s %s %s' % (d['ke'], d['id'], d['id'], d['ct']), 'OK ' + d['msg'])
    ke = rs(rng)
    idb = hx(b'Bob')
    lens = range(0, 256) if tier == 'thorough' else [0, 1, 2, 31, 32, 33, 64, 223, 224, 254, 255]
    for ln in (1, 20):
        m_ = rb(rng, ln)
        yield ('affine-Ppub', 's9_enc aff:%s %s %s %s' % (H(ke), idb, hx(m_), good_r(rng)), None)
        yield ('affine-Ppub-rt', 's9_tamper aff:%s %s %s %s none 0' % (H(ke), idb, hx(m_), good_r(rng)), 'OK ' + hx(m_))
    for ln in lens:
        msg = rb(rng, ln)
        yield ('enc-len', 's9_enc %s %s %s %s' % (H(ke), idb, hx(msg) or '-', good_r(rng)), None)
        yield ('round-trip', 's9_tamper %s %s %s %s none 0' % (H(ke), idb, hx(msg) or '-', good_r(rng)), 'OK ' + hx(msg) if ln else None)
    for i in range(3 if tier == 'thorough' else 1):
        ke = rs(rng)
        idb = rng.choice(ids(rng))
        mlen = rng.choice([1, 9, 40])
        msg = rb(rng, mlen)
        base = 's9_tamper %s %s %s %s' % (H(ke), idb, hx(msg), good_r(rng))
        total = 97 + mlen
        bits = range(total * 8) if (tier == 'thorough' and i == 0) else rng.sample(range(total * 8), 14)
        for bit in bits:
            yield ('bit-flip', base + ' flip %d' % bit, None)
        for ln in (range(0, total) if tier == 'thorough' else [0, 1, 64, 65, 96, 97, total - 1]):
            yield ('truncation', base + ' trunc %d' % ln, None)
        # two (or all) bytes of C3 / of C2 altered with the SAME mask (folds to zero under XOR)
        for _ in range(6 if tier == 'thorough' else 2):
            i_, j_ = rng.sample(range(32), 2)
            yield ('c3-two-bytes-same-mask', base + ' xor %d,%d:%02x' % (65 + i_, 65 + j_, rng.randrange(1, 256)), None)
        yield ('c3-all-bytes-same-mask', base + ' xor %s:ff' % ','.join(str(65 + i_) for i_ in range(32)), None)
        if mlen >= 2:
            i_, j_ = rng.sample(range(mlen), 2)
            yield ('c2-two-bytes-same-mask', base + ' xor %d,%d:%02x' % (97 + i_, 97 + j_, rng.randrange(1, 256)), None)
        Q = S.g1_mul(rs(rng), S.P1)
        yield ('c1-other-point', base + ' c1 %s' % S.g1_bytes(Q), None)
        yield ('c1-off-curve', base + ' c1 %s' % S.g1_bytes((Q[0], (Q[1] + 1) % P)), None)
        yield ('c1-off-curve', base + ' c1 04%s%s' % (H(rng.randrange(P)), H(rng.randrange(P))), None)
        yield ('c1-coords>=p', base + ' c1 04%s%s' % (H(Q[0] + P) if Q[0] + P < (1 << 256) else H(P), H(Q[1])), None)
        yield ('different-identity', base + ' id 0', None)
    # C1 re-encoded with a coordinate replaced by coordinate + p (same point after reduction, different octets): C1 computed
    # independently as [r(H1(ID||03) + ke)]P1
    for idb_ in (b'Bob', rb(rng, 6)):
        ke_ = rs(rng)
        t_ = (S.H1(idb_, 3) + ke_) % N
        done = set()
        for _ in range(60):
            r_ = int(good_r(rng), 16)
            C1 = S.g1_mul(r_ * t_ % N, S.P1)
            for which in (0, 1):
                if C1[which] + P < (1 << 256) and which not in done:
                    done.add(which)
                    enc_ = [C1[0], C1[1]]
                    enc_[which] += P
                    m_ = rb(rng, 7)
                    yield ('c1-coordinate+p-same-point', 's9_tamper %s %s %s %s c1 04%s%s' % (H(ke_), hx(idb_), hx(m_), H(r_), H(enc_[0]), H(enc_[1])), None)
            if len(done) == 2:
                break
    for r_ in zero_limb_scalars(rng):
        m_ = rb(rng, 9)
        yield ('r-with-zero-limbs', 's9_enc %s %s %s %s' % (H(ke), hx(b'Bob'), hx(m_), r_), None)
        yield ('r-with-zero-limbs-rt', 's9_tamper %s %s %s %s none 0' % (H(ke), hx(b'Bob'), hx(m_), r_), 'OK ' + hx(m_))
    for idb_ in (b'Bob', rb(rng, 11)):
        for name, k, ok in crafted_masters(rng, idb_, 3):
            if ok:
                m_ = rb(rng, 9)
                yield ('crafted-master ' + name.split(' ')[0], 's9_tamper %s %s %s %s none 0' % (H(k), hx(idb_), hx(m_), good_r(rng)), 'OK ' + hx(m_))
                yield ('crafted-master-enc ' + name.split(' ')[0], 's9_enc %s %s %s %s' % (H(k), hx(idb_), hx(m_), good_r(rng)), None)
                # the same with the master public key held in AFFINE form (as after decoding it from octets): mixed-coordinate paths
                yield ('crafted-master-affine-Ppub ' + name.split(' ')[0], 's9_tamper aff:%s %s %s %s none 0' % (H(k), hx(idb_), hx(m_), good_r(rng)), 'OK ' + hx(m_))
                yield ('crafted-master-affine-Ppub-enc ' + name.split(' ')[0], 's9_enc aff:%s %s %s %s' % (H(k), hx(idb_), hx(m_), good_r(rng)), None)
    # 1-byte messages: K1 = 0 with probability 2^-8 per r -> the retry branch (many candidates, some rejected)
    for _ in range(2 if tier == 'thorough' else 1):
        yield ('retry-K1-zero-search', 's9_enc %s %s 5a %s' % (H(ke), idb, ','.join(good_r(rng) for _ in range(40 if tier != 'thorough' else 300))), None)
    for ln in (range(0, 401, 1) if tier == 'thorough' else [0, 1, 64, 65, 96, 97, 98, 352, 353, 400]):
        yield ('garbage-ciphertext-len', 's9_dec %s %s %s %s' % (H(ke), idb, idb, hx(rb(rng, ln))), None)


# ----------------------------------------------------------------------------- C17
def gen_c17(tier, rng):
    for d in sv('sm9exch.full'):
        yield ('std-vector-fixed-r', 's9_exch %s %s %s %s %s %s -' % (d['ke'], d['ida'], d['idb'], d['klen'], d['ra'], d['rb']),
               'OK %s %s %s %s' % (d['RA'], d['RB'], d['sk'], d['sk']))
    for klen in (range(1, 129) if tier == 'thorough' else [1, 2, 16, 32, 33, 128]):
        yield ('honest-klen', 's9_exch %s %s %s %d %s %s -' % (H(rs(rng)), hx(b'Alice'), hx(b'Bob'), klen, good_r(rng), good_r(rng)), None)
    for t in ('ra', 'rb', 'ra,rb', 'ra-offcurve', 'rb-offcurve'):
        for _ in range(3 if tier == 'thorough' else 1):
            yield ('tamper-' + t, 's9_exch %s %s %s 16 %s %s %s' % (H(rs(rng)), hx(rb(rng, 5)), hx(rb(rng, 7)), good_r(rng), good_r(rng), t), None)
    # master keys related to one party's identity (Q = [H1]P1 + Ppub-e hits the doubling branch; zero limbs in t2 = ke/t1)
    for who, idx in ((b'Alice', 0), (b'Bob', 1)):
        for name, k, ok in crafted_masters(rng, who, 2):
            if ok:
                yield ('crafted-master ' + name.split(' ')[0], 's9_exch %s %s %s 16 %s %s -' % (H(k), hx(b'Alice'), hx(b'Bob'), good_r(rng), good_r(rng)), None)
    # key lengths beyond 255 KDF blocks (the 32-bit counter must carry into its second byte) and far-away blocks of the KDF itself
    for klen in ((8160, 8161, 8200, 20000) if tier == 'thorough' else (8161, 8200)):
        yield ('klen>8160', 's9_exch %s %s %s %d %s %s -' % (H(rs(rng)), hx(b'Alice'), hx(b'Bob'), klen, good_r(rng), good_r(rng)), None)
    zz = rb(rng, 70)
    for blk in (1, 255, 256, 257, 512, 65535, 65536, 65537):
        yield ('kdf-far-block', 's9_kdf_block %s %d' % (hx(zz), blk), None)
    # the master public key held in AFFINE form (as after decoding it from octets): mixed-coordinate paths of Q = [H1]P1 + Ppub-e
    yield ('affine-Ppub', 's9_exch aff:%s %s %s 16 %s %s -' % (H(rs(rng)), hx(b'Alice'), hx(b'Bob'), good_r(rng), good_r(rng)), None)
    for who in (b'Alice', b'Bob'):
        for name, k, ok in crafted_masters(rng, who, 2)[:3]:
            if ok:
                yield ('crafted-master-affine-Ppub ' + name.split(' ')[0], 's9_exch aff:%s %s %s 16 %s %s -' % (H(k), hx(b'Alice'), hx(b'Bob'), good_r(rng), good_r(rng)), None)
    zs = zero_limb_scalars(rng)
    for i, r_ in enumerate(zs):
        yield ('r-with-zero-limbs', 's9_exch %s %s %s 16 %s %s -' % (H(rs(rng)), hx(b'Alice'), hx(b'Bob'), r_, zs[(i + 3) % len(zs)]), None)
    # klen = 1: the responder's retry branch (key byte 0, probability 2^-8): many honest runs
    for _ in range(300 if tier == 'thorough' else 12):
        yield ('klen=1-retry-search', 's9_exch %s %s %s 1 %s %s -' % (H(rs(rng)), hx(b'A'), hx(b'B'), good_r(rng), ','.join(good_r(rng) for _ in range(3))), None)


# ----------------------------------------------------------------------------- C14 (SM9 part)
def gen_c14_sm9(tier, rng):
    bad = ['00' * 32, H(N), H(N + 1), H(P), 'ff' * 32]
    ks = rs(rng)
    for b_ in bad:
        g = good_r(rng)
        yield ('sm9-out-of-range-candidate', 's9_sign %s %s %s %s,%s' % (H(ks), hx(b'Alice'), hx(b'm'), b_, g), None)
        yield ('sm9-out-of-range-candidate', 's9_enc %s %s %s %s,%s' % (H(ks), hx(b'Bob'), hx(b'm'), b_, g), None)
        yield ('sm9-out-of-range-candidate', 's9_keygen sign %s,%s' % (b_, g), None)
        yield ('sm9-out-of-range-candidate', 's9_keygen enc %s,%s' % (b_, g), None)
        yield ('sm9-out-of-range-candidate', 's9_exch %s %s %s 16 %s,%s %s -' % (H(ks), hx(b'A'), hx(b'B'), b_, g, good_r(rng)), None)
    # long RUNS of out-of-range candidates before a good one
    for nbad in ((3, 64, 127, 128, 129, 300, 1000) if tier == 'thorough' else (3, 128, 129, 300)):
        bads = [rng.choice(['ff' * 32, H(N), H(N + rng.randrange(1, 1 << 200)), '00' * 32]) for _ in range(nbad)]   # (N - 1 may legitimately be skipped: `awkward`)
        yield ('sm9-long-run-of-bad-candidates', 's9_keygen %s %s,%s' % (rng.choice(['sign', 'enc', 'signfn', 'encfn']), ','.join(bads), good_r(rng)), None)
        if nbad <= 300:
            yield ('sm9-long-run-of-bad-candidates', 's9_exch %s %s %s 16 %s,%s %s -' % (H(ks), hx(b'A'), hx(b'B'), ','.join(bads), good_r(rng), good_r(rng)), None)
    # candidates limb-wise next to the order N (see gens_sm2.limb_neighbours)
    from .gens_sm2 import limb_neighbours
    for cand in limb_neighbours(N, rng, 81 if tier == 'thorough' else 27):
        yield ('sm9-candidate-limbwise-near-order', 's9_keygen %s %s,%s' % (rng.choice(['sign', 'enc', 'signfn', 'encfn']), H(cand), good_r(rng)), None)
        if cand % 5 == 0 or tier == 'thorough':
            yield ('sm9-candidate-limbwise-near-order', 's9_exch %s %s %s 16 %s,%s %s -' % (H(ks), hx(b'A'), hx(b'B'), H(cand), good_r(rng), good_r(rng)), None)
    # the second pair of key-generation entry points (free functions generate_*_master_key)
    for b_ in bad + [H(N - 1)]:
        yield ('sm9-out-of-range-candidate-fn', 's9_keygen signfn %s,%s' % (b_, good_r(rng)), None)
        yield ('sm9-out-of-range-candidate-fn', 's9_keygen encfn %s,%s' % (b_, good_r(rng)), None)
    yield ('sm9-injected-used-fn', 's9_keygen signfn %s' % good_r(rng), None)
    yield ('sm9-injected-used-fn', 's9_keygen encfn %s' % good_r(rng), None)
    for v in (1, N - 2):
        yield ('sm9-extreme-in-range', 's9_keygen enc %s' % H(v), None)
    for _ in range(20 if tier == 'thorough' else 4):
        yield ('sm9-injected-used', 's9_sign %s %s %s %s' % (H(ks), hx(b'Alice'), hx(rb(rng, 8)), ','.join(good_r(rng) for _ in range(2))), None)
    # implementation detail that the property allows: candidates N-1 and those with a zero low limb are skipped
    yield ('sm9-sampler-skips-allowed', 's9_keygen enc %s,%s' % (H(N - 1), good_r(rng)), None)
    yield ('sm9-sampler-skips-allowed', 's9_keygen enc %s,%s' % (H(5 << 64), good_r(rng)), None)
    n_ = 1200 if tier == 'thorough' else 200
    yield ('frozen-sm9-rng-threads', 's9_rngthreads %d %d' % ((8, 24) if tier == 'thorough' else (4, 9)), 'OK drawn>=1 distinct=1')
    yield ('frozen-sm9-rng-stats', 's9_rngstats %d' % n_, 'OK in-range=1 distinct=1 bits-ok=1')


# ----------------------------------------------------------------------------- C20 (SM9 part)
def gen_c20_sm9(tier, rng):
    ke = rs(rng)
    idb = hx(b'Bob')
    maxlen = 200 if tier == 'thorough' else 60
    for ln in list(range(0, maxlen + 1, 1 if tier == 'thorough' else 3)) + [352, 353, 354, 400]:
        for content in ('00', 'ff', 'rnd'):
            if tier != 'thorough' and content != 'rnd' and ln % 2:
                continue
            data = bytes(ln) if content == '00' else b'\xff' * ln if content == 'ff' else rb(rng, ln)
            yield ('sm9-decrypt-len', 's9_dec %s %s %s %s' % (H(ke), idb, idb, hx(data)), None)
            # every length: fewer than 40 bytes used to panic (fixed 3f2395a); the oracle of C16 speaks for >= 40 bytes only,
            # for shorter input C20 demands "returns, no panic" (class prefix `terminates`)
            yield (('sm9-hash-to-range-len' if ln >= 40 else 'terminates-sm9-hash-to-range-short'), 'n_from_hash %s' % (hx(data) or '-'), None)
            if ln <= 80:
                yield ('sm9-kdf-len', 's9_kdf %s %d' % (hx(data), ln), None)
    # hash-to-range on Ha = q(N-1) + r with small r (the correction rounds after the quotient estimate must terminate)
    for q_ in (1, 2, 3, 1 << 63, (1 << 64) - 1):
        for r_ in (0, 1, 2, N - 3, N - 2):
            ha_ = q_ * (N - 1) + r_
            if ha_ < (1 << 320):
                yield ('sm9-hash-to-range-correction-rounds', 'n_from_hash %080x' % ha_, None)
    yield ('sm9-hash-to-range-correction-rounds', 'n_from_hash %080x' % (N - 1), None)
    # degenerate lengths of the encryption entry points (an empty message must return, not spin in the K1 = 0 retry)
    for m_ in ('-', '00', 'ff' * 255):
        yield ('terminates-sm9-encrypt-degenerate-len', 's9_enc %s %s %s %s' % (H(ke), idb, m_, good_r(rng)), None)
    yield ('terminates-sm9-encrypt-degenerate-len', 's9_tamper %s %s - %s none 0' % (H(ke), idb, good_r(rng)), None)
    for hv in (0, 1, N - 2, N - 1, N, N + 1, (1 << 256) - 1):
        yield ('sm9-verify-h-boundary', 's9_verify %s %s %s %s %s' % (H(ke), hx(b'Alice'), hx(b'msg'), H(hv), S.g1_bytes(S.P1)), None)
    for s_ in ('04' + H(0) + H(0), '04' + 'ff' * 64, '00' * 65, S.g1_bytes((S.P1[0], S.P1[1] ^ 1))):
        yield ('sm9-verify-S-garbage', 's9_verify %s %s %s %s %s' % (H(ke), hx(b'Alice'), hx(b'msg'), H(5), s_), None)
    yield ('sm9-verify-S-raw-z=0', 's9_verify_raw %s %s %s %s %s' % (H(ke), hx(b'Alice'), hx(b'msg'), H(5), S.g1_jac(None, 1)), None)
    for v in (1, N - 2):
        yield ('terminates-sm9-boundary-master-keys', 's9_sv %s %s %s %s' % (H(v), hx(b'Alice'), hx(b'm'), good_r(rng)), None)
