"""Generators for C01 (SM3), C02 (SM4 block), C07 (SM4 modes), C08 (ZUC), C18 (EEA3/EIA3).
Each generator yields (class_label, op_line, expected_or_None). `expected` (when given) is an
independent reference value (standard's vector / OpenSSL corpus) that the Spec oracle must reproduce."""
import os, random

ROOT = os.path.dirname(os.path.dirname(os.path.abspath(__file__)))
VEC = os.path.join(ROOT, 'vectors')


def hx(b):
    return b.hex() if b else '-'


def rb(rng, n):
    return bytes(rng.getrandbits(8) for _ in range(n))


def std_vectors(prefix):
    out = []
    for line in open(os.path.join(VEC, 'standards.txt')):
        if line.startswith(prefix):
            import re as _re
            name, _, rest = line.strip().partition(' ')
            d = {}
            parts = _re.split(r' (?=[A-Za-z0-9_]+=)', rest)
            for kv in parts:
                k, _, v = kv.partition('=')
                d[k] = v
            out.append((name, d))
    return out


def field_bytes(v):
    if v.startswith('ascii:'):
        return v[6:].encode()
    return bytes.fromhex(v)


# ----------------------------------------------------------------------------- C01
def gen_c01(tier, rng):
    for name, d in std_vectors('sm3.'):
        if 'msg' in d:
            yield ('std-vector', 'sm3 ' + hx(field_bytes(d['msg'])), 'OK ' + d['digest'])
    n = 0
    for line in open(os.path.join(VEC, 'openssl', 'sm3.txt')):
        if line.startswith('#') or not line.strip():
            continue
        m, dg = line.split()
        n += 1
        if tier == 'thorough' or n % 3 == 0 or len(m) < 300:
            yield ('openssl-corpus', 'sm3 ' + m, 'OK ' + dg)
    maxlen = 4096 if tier == 'thorough' else 1100
    classes = ['zero', 'ff', 'counter', 'random'] if tier == 'thorough' else ['counter', 'random']
    for ln in range(0, maxlen + 1):
        for c in classes:
            if tier != 'thorough' and ln > 300 and c == 'random' and ln % 64 not in (0, 1, 54, 55, 56, 57, 62, 63):
                continue
            if c == 'zero':
                m = bytes(ln)
            elif c == 'ff':
                m = b'\xff' * ln
            elif c == 'counter':
                m = bytes((i * 7 + ln) & 0xff for i in range(ln))
            else:
                m = rb(rng, ln)
            pb = 'pad-boundary' if ln % 64 in (55, 56, 63, 0) else 'len'
            yield (f'{pb}-{c}', 'sm3 ' + hx(m), None)
    # every single-bit-set message over three blocks (thorough), one block + boundary bits (quick)
    nbits = 1536 if tier == 'thorough' else 512
    step = 1 if tier == 'thorough' else 5
    for bit in range(0, nbits, step):
        m = bytearray(nbits // 8)
        m[bit // 8] = 0x80 >> (bit % 8)
        yield ('single-bit', 'sm3 ' + hx(bytes(m)), None)
    # random multi-block messages
    for _ in range(200 if tier == 'thorough' else 30):
        blocks = rng.randint(1, 40)
        ln = blocks * 64 + rng.choice([0, 0, 1, 55, 56, 63, rng.randint(0, 63)]) - rng.choice([0, 0, 1])
        yield ('random-multiblock', 'sm3 ' + hx(rb(rng, max(ln, 0))), None)
    # purity / interleaving: hash A, B, A again on one thread
    for _ in range(40 if tier == 'thorough' else 10):
        a = rb(rng, rng.randint(0, 200))
        b = rb(rng, rng.randint(0, 200))
        yield ('interleaving', 'sm3seq %s %s %s %s' % (hx(a), hx(b), hx(a), hx(b)), None)
    # long messages followed by SHORTER long ones on one thread (a reused, not re-cleared buffer would leak the tail of the first)
    for la, lb in ((5000, 1500), (1100, 1016), (3000, 2999), (4096, 1024), (2048, 1017)):
        a, b = rb(rng, la), rb(rng, lb)
        yield ('long-then-shorter-history', 'seq sm3 %s ; %s ; %s ; %s' % (hx(a), hx(b), hx(a[:lb]), hx(b)), None)
    # bit length that does not fit in 32 bits: >= 2^29 bytes, streamed (model folds cf; real hashes the Vec)
    blk = bytes((i * 13 + 5) & 0xff for i in range(64))
    for name, d in std_vectors('sm3.long'):
        # quick: the real code hashes the 2^29-byte message (8 s) and is compared with the frozen digest only;
        # thorough: the Lean model and the Lean oracle stream it as well (minutes)
        cls = 'len>=2^29' if tier == 'thorough' else 'frozen-len>=2^29'
        yield (cls, 'sm3rep %s %s %s' % (d['block'], d['count'], d['tail']), 'OK ' + d['digest'])
    yield ('long-streamed', 'sm3rep %s %d %s' % (hx(blk), 2 ** 12 if tier != 'thorough' else 2 ** 16, hx(b'xyz')), None)


# ----------------------------------------------------------------------------- C02
def gen_c02(tier, rng):
    for name, d in std_vectors('sm4.A1'):
        yield ('std-vector', 'sm4 enc %s %s' % (d['key'], d['pt']), 'OK ' + d['ct'])
        yield ('std-vector', 'sm4 dec %s %s' % (d['key'], d['ct']), 'OK ' + d['pt'])
    for line in open(os.path.join(VEC, 'openssl', 'sm4.txt')):
        t = line.split()
        if t and t[0] == 'ecb':
            yield ('openssl-corpus', 'sm4 enc %s %s' % (t[1], t[3]), 'OK ' + t[4])
            yield ('openssl-corpus', 'sm4 dec %s %s' % (t[1], t[4]), 'OK ' + t[3])
    z, o = bytes(16), b'\xff' * 16
    structured = [z, o] + [bytes([p]) * 16 for p in (0x01, 0x55, 0xaa, 0x80)] + [bytes(range(16)), bytes(range(255, 239, -1))]
    nbit = 128 if tier == 'thorough' else 16
    singles = []
    for bit in range(0, 128, 128 // nbit):
        b = bytearray(16)
        b[bit // 8] = 0x80 >> (bit % 8)
        singles.append(bytes(b))
    for k in structured + singles[:: 4 if tier != 'thorough' else 1]:
        for x in structured + singles:
            for d in ('enc', 'dec'):
                yield ('structured', 'sm4 %s %s %s' % (d, hx(k), hx(x)), None)
    # per key 256 blocks whose first byte runs over 0..255 (every S-box entry read in round 1 for some block)
    for _ in range(8 if tier == 'thorough' else 2):
        k = rb(rng, 16)
        base = rb(rng, 16)
        for v in range(256):
            x = bytes([v]) + base[1:]
            yield ('sbox-sweep', 'sm4 enc %s %s' % (hx(k), hx(x)), None)
            yield ('sbox-sweep', 'sm4 dec %s %s' % (hx(k), hx(x)), None)
    for _ in range(3000 if tier == 'thorough' else 400):
        yield ('random', 'sm4 %s %s %s' % (rng.choice(['enc', 'dec']), hx(rb(rng, 16)), hx(rb(rng, 16))), None)
    # immutability: one object, mixed history, repeated blocks
    for _ in range(60 if tier == 'thorough' else 12):
        k = rb(rng, 16)
        blocks = [rb(rng, 16) for _ in range(4)]
        seq = []
        for _ in range(rng.randint(3, 24)):
            seq.append(rng.choice(['e:', 'd:']) + hx(rng.choice(blocks)))
        yield ('history', 'sm4hist %s %s' % (hx(k), ' '.join(seq)), None)
    # histories that contain rejected calls (wrong block length) between valid ones: the object must be unaffected
    for _ in range(40 if tier == 'thorough' else 10):
        k = rb(rng, 16)
        blocks = [rb(rng, 16) for _ in range(3)]
        seq = []
        for _ in range(rng.randint(4, 16)):
            b = rng.choice(blocks)
            if rng.random() < 0.3:
                b = rng.choice([b[:15], b + b'\x00', b''])
            seq.append(rng.choice(['e:', 'd:']) + hx(b))
        # same block both directions back to back
        seq += ['e:' + hx(blocks[0]), 'd:' + hx(blocks[0]), 'd:' + hx(blocks[1]), 'e:' + hx(blocks[1])]
        yield ('history-with-rejected-calls', 'sm4hist %s %s' % (hx(k), ' '.join(seq)), None)
    # keys that differ by a transposition / by the same mask in two bytes (their byte-wise XOR folds to zero), used one after the
    # other on one thread: each must get its OWN key schedule
    for _ in range(12 if tier == 'thorough' else 4):
        ka = rb(rng, 16)
        i_, j_ = rng.sample(range(16), 2)
        kb = bytearray(ka); kb[i_], kb[j_] = kb[j_], kb[i_]
        mk = rng.randrange(1, 256)
        kc_ = bytearray(ka); kc_[i_] ^= mk; kc_[j_] ^= mk
        x_ = rb(rng, 16)
        yield ('related-keys-history', 'seq sm4 enc %s %s ; enc %s %s ; enc %s %s ; dec %s %s ; enc %s %s' % (
            hx(ka), hx(x_), hx(bytes(kb)), hx(x_), hx(bytes(kc_)), hx(x_), hx(bytes(kb)), hx(x_), hx(ka), hx(x_)), None)
    # a decrypt as the very FIRST operation of a process and of a thread (lazily initialised tables)
    yield ('decrypt-first', 'seq sm4 dec %s %s ; enc %s %s ; dec %s %s' % ((hx(rb(rng, 16)), hx(rb(rng, 16))) * 3), None)
    # two objects with related keys created one after the other (equal halves, complemented, swapped halves)
    base = rb(rng, 8)
    related = [bytes(16), b'\xff' * 16, base + base, bytes(x ^ 0xff for x in base + base), base + bytes(8), bytes(8) + base]
    x = rb(rng, 16)
    for k1 in related:
        for k2 in related:
            if k1 != k2:
                yield ('related-keys-sequence', 'sm4 enc %s %s' % (hx(k1), hx(x)), None)
                yield ('related-keys-sequence', 'sm4 enc %s %s' % (hx(k2), hx(x)), None)
    # wrong lengths (C20 side): must be ERR
    for kl, bl in [(0, 16), (15, 16), (17, 16), (32, 16), (16, 0), (16, 15), (16, 17), (16, 32), (0, 0)]:
        for d in ('enc', 'dec'):
            yield ('bad-length', 'sm4 %s %s %s' % (d, hx(rb(rng, kl)), hx(rb(rng, bl))), None)


# ----------------------------------------------------------------------------- C07
def carry_ivs():
    ivs = [b'\xff' * 16, bytes(16)]
    for j in range(1, 17):
        ivs.append(bytes(16 - j) + b'\xff' * j)
    ivs.append(b'\xff' * 15 + b'\xfe')
    ivs.append(b'\x7f' + b'\xff' * 15)
    return ivs


def gen_c07(tier, rng):
    for line in open(os.path.join(VEC, 'openssl', 'sm4.txt')):
        t = line.split()
        if t and t[0] in ('cbc', 'cfb', 'ofb', 'ctr'):
            yield ('openssl-corpus', 'sm4mode %s enc %s %s %s' % (t[0], t[1], t[2], t[3]), 'OK ' + t[4])
            yield ('openssl-corpus', 'sm4mode %s dec %s %s %s' % (t[0], t[1], t[2], t[4]), 'OK ' + t[3])
    modes = ['cbc', 'cfb', 'ofb', 'ctr']
    maxlen = 200 if tier == 'thorough' else 70
    for mode in modes:
        k, iv = rb(rng, 16), rb(rng, 16)
        for ln in range(0, maxlen + 1):
            data = rb(rng, ln)
            yield (f'{mode}-len', 'sm4rt %s %s %s %s' % (mode, hx(k), hx(iv), hx(data)), None)
            if tier == 'thorough' or ln % 5 == 0:
                yield (f'{mode}-dec-len', 'sm4mode %s dec %s %s %s' % (mode, hx(k), hx(iv), hx(data)), None)
    # counter carries through 1..16 bytes and wrap-around (all modes use the IV; CTR increments it)
    for iv in carry_ivs():
        k = rb(rng, 16)
        for ln in (1, 16, 17, 33, 48, 80):
            yield ('ctr-carry', 'sm4rt ctr %s %s %s' % (hx(k), hx(iv), hx(rb(rng, ln))), None)
        yield ('iv-extreme', 'sm4rt cbc %s %s %s' % (hx(k), hx(iv), hx(rb(rng, 20))), None)
        yield ('iv-extreme', 'sm4rt cfb %s %s %s' % (hx(k), hx(iv), hx(rb(rng, 20))), None)
        yield ('iv-extreme', 'sm4rt ofb %s %s %s' % (hx(k), hx(iv), hx(rb(rng, 20))), None)
    # every carry LENGTH in bits: counters whose low j bits are all ones under a zero bit (j = 1..127), e.g. ..7fffffffffffffff,
    # with random upper bits; two increments are exercised (33 bytes of data)
    for j in range(1, 128, 1 if tier == 'thorough' else 3):
        hi = rng.getrandbits(128) >> (j + 1) << (j + 1)
        ivv = (hi | ((1 << j) - 1)).to_bytes(16, 'big')
        yield ('ctr-carry-bit-length', 'sm4rt ctr %s %s %s' % (hx(rb(rng, 16)), hx(ivv), hx(rb(rng, 33))), None)
    for lowhalf in (0x7fffffffffffffff, 0x7ffffffffffffffe, 0x00ffffffffffffff, 0xfffffffeffffffff, 0x7fffffff, 0xffffffff7fffffff):
        ivv = rb(rng, 8) + lowhalf.to_bytes(8, 'big')
        yield ('ctr-carry-word-patterns', 'sm4rt ctr %s %s %s' % (hx(rb(rng, 16)), hx(ivv), hx(rb(rng, 50))), None)
    # carries that happen only after several blocks (batched / grouped counter arithmetic): the low w bits of the counter are
    # 2^w - t, so the carry out of bit w occurs after t blocks, in the middle of the data; lengths straddle it with a partial tail
    ws = (8, 16, 24, 32, 40, 48, 56, 64, 96, 128) if tier == 'thorough' else (8, 16, 32, 64, 128)
    for w in ws:
        for t in (range(1, 18) if tier == 'thorough' else (1, 2, 3, 4, 5, 7, 8, 9, 12, 16)):
            hi = (rng.getrandbits(128) >> w << w) if w < 128 else 0
            ivv = ((hi | ((1 << w) - t)) & ((1 << 128) - 1)).to_bytes(16, 'big')
            ln = 16 * (t + rng.choice([1, 2, 4])) + rng.randint(1, 15)
            yield ('ctr-carry-after-t-blocks', 'sm4rt ctr %s %s %s' % (hx(rb(rng, 16)), hx(ivv), hx(rb(rng, ln))), None)
    # CBC decrypt: every length 0..=80 and every final plaintext byte value
    k, iv = rb(rng, 16), rb(rng, 16)
    for ln in range(0, 81 if tier == 'thorough' else 49):
        yield ('cbc-dec-anylen', 'sm4mode cbc dec %s %s %s' % (hx(k), hx(iv), hx(rb(rng, ln))), None)
    # craft ciphertexts whose last plaintext byte takes every value: decrypt random blocks (many values) …
    for _ in range(600 if tier == 'thorough' else 150):
        n = rng.choice([16, 32, 48])
        yield ('cbc-dec-lastbyte', 'sm4mode cbc dec %s %s %s' % (hx(k), hx(iv), hx(rb(rng, n))), None)
    # random longer data
    for _ in range(60 if tier == 'thorough' else 8):
        mode = rng.choice(modes)
        yield ('random-long', 'sm4rt %s %s %s %s' % (mode, hx(rb(rng, 16)), hx(rb(rng, 16)), hx(rb(rng, rng.randint(200, 2000)))), None)
    # one mode object, several calls: same IV and long data, alternating IVs, encrypt then decrypt on the same object
    for mode in modes:
        for _ in range(6 if tier == 'thorough' else 2):
            k = rb(rng, 16)
            iv1, iv2 = rb(rng, 16), rb(rng, 16)
            long1 = rb(rng, rng.choice([1000, 1008, 1500, 2048]))
            long2 = rb(rng, rng.choice([1001, 1600]))
            short = rb(rng, rng.randint(0, 40))
            seq = ['e:%s:%s' % (hx(iv1), hx(long1)), 'e:%s:%s' % (hx(iv1), hx(long2)), 'e:%s:%s' % (hx(iv2), hx(short)),
                   'e:%s:%s' % (hx(iv1), hx(short)), 'e:%s:%s' % (hx(iv1), hx(long1)), 'd:%s:%s' % (hx(iv1), hx(long1[:1488])),
                   'd:%s:%s' % (hx(iv1), hx(b'')), 'e:%s:%s' % (hx(iv1[:15]), hx(short)), 'e:%s:%s' % (hx(iv1), hx(short))]
            yield ('mode-object-history', 'sm4modehist %s %s %s' % (mode, hx(k), ' '.join(seq)), None)
    # IV / key of the wrong size -> error
    for mode in modes:
        for ivl in (0, 1, 15, 17, 32):
            for d in ('enc', 'dec'):
                yield ('bad-iv', 'sm4mode %s %s %s %s %s' % (mode, d, hx(rb(rng, 16)), hx(rb(rng, ivl)), hx(rb(rng, 32))), None)
        for kl in (0, 15, 17):
            yield ('bad-key', 'sm4mode %s enc %s %s %s' % (mode, hx(rb(rng, kl)), hx(rb(rng, 16)), hx(rb(rng, 32))), None)


# ----------------------------------------------------------------------------- C08
def compositions(total):
    """all compositions of `total` into positive parts, with zero-length requests sprinkled in by the caller"""
    if total == 0:
        yield []
        return
    for first in range(1, total + 1):
        for rest in compositions(total - first):
            yield [first] + rest


ZUC_D = [0x44D7, 0x26BC, 0x626B, 0x135E, 0x5789, 0x35E2, 0x7135, 0x09AF, 0x4D78, 0x2F13, 0x6BC4, 0x1AF1, 0x5E26, 0x3C4D, 0x789A, 0x47AC]


def zuc_feedback_zero_key(rng, offset=0):
    """(key, iv) such that s16 of initialisation round 1 is congruent to `offset` mod 2^31-1 (offset 0: the canonical
    representative 2^31-1 must be stored; offsets 1 and 2^31-2 are its neighbours). Round 1 has R1 = R2 = 0, so
    W = X0 and u = X0 >> 1 with X0 = s15H || s14L: everything is linear in the loaded cells."""
    M = (1 << 31) - 1
    inv257 = pow(257, -1, M)
    while True:
        k = bytearray(rb(rng, 16))
        iv = bytearray(rb(rng, 16))
        cell = lambda i: (k[i] << 23) | (ZUC_D[i] << 8) | iv[i]
        for _ in range(70000):
            k[4] = rng.randrange(256); iv[4] = rng.randrange(256)
            s = [cell(i) for i in range(16)]
            x0 = ((s[15] & 0x7FFF8000) << 1) | (s[14] & 0xFFFF)
            u = x0 >> 1
            rest = ((1 << 15) * s[15] + (1 << 17) * s[13] + (1 << 21) * s[10] + (1 << 20) * s[4] + u) % M
            s0 = (offset - rest) * inv257 % M
            for cand in (s0, s0 + M if s0 == 0 else None):
                if cand is None:
                    continue
                if (cand >> 8) & 0x7FFF == ZUC_D[0] and cand < (1 << 31):
                    k[0] = cand >> 23
                    iv[0] = cand & 0xFF
                    return bytes(k), bytes(iv)


def zuc_craft_3gpp(rng, offset, eia):
    """(key, COUNT, BEARER, DIRECTION) for 128-EEA3 (eia=False) / 128-EIA3 (eia=True) such that s16 of ZUC initialisation round 1
    is congruent to `offset` mod 2^31-1: the IV has the 3GPP structure, the free unknowns are k[0] and the top byte of COUNT"""
    M = (1 << 31) - 1
    inv257 = pow(257, -1, M)
    while True:
        k = bytearray(rb(rng, 16))
        for _ in range(200000):
            k[4] = rng.randrange(256)
            count = rng.getrandbits(24)            # low three bytes; the top byte is solved for
            bearer, d = rng.randrange(32), rng.randrange(2)
            iv = [0] * 16
            iv[1], iv[2], iv[3] = (count >> 16) & 0xff, (count >> 8) & 0xff, count & 0xff
            if eia:
                iv[4] = bearer << 3
                iv[9:14] = iv[1:6]
                iv[14] = (iv[6] ^ (d << 7)) & 0xff
                iv[15] = iv[7]
            else:
                iv[4] = (bearer << 3) | (d << 2)
                iv[9:16] = iv[1:8]
            cell = lambda i: (k[i] << 23) | (ZUC_D[i] << 8) | iv[i]
            s = [cell(i) for i in range(16)]
            x0 = ((s[15] & 0x7FFF8000) << 1) | (s[14] & 0xFFFF)
            u = x0 >> 1
            rest = ((1 << 15) * s[15] + (1 << 17) * s[13] + (1 << 21) * s[10] + (1 << 20) * s[4] + u) % M
            s0 = (offset - rest) * inv257 % M
            for cand in (s0, s0 + M if s0 == 0 else None):
                if cand is not None and (cand >> 8) & 0x7FFF == ZUC_D[0] and cand < (1 << 31):
                    k[0] = cand >> 23
                    top = cand & 0xFF                 # iv[0]: the top byte of COUNT (iv[8] = iv[0] (^ DIR<<7) is not a tap of round 1)
                    return bytes(k), (top << 24) | count, bearer, d


def gen_c08(tier, rng):
    M = (1 << 31) - 1
    for off in ([0, 0, 0, 1, M - 1] if tier != 'thorough' else [0] * 8 + [1, 2, M - 1, M - 2]):
        k, iv = zuc_feedback_zero_key(rng, off)
        yield ('lfsr-feedback=%s-mod-2^31-1' % ('0' if off == 0 else 'near0'), 'zuc %s %s 8' % (hx(k), hx(iv)), None)
    for name, d in std_vectors('zuc.'):
        yield ('std-vector', 'zuc %s %s 2' % (d['key'], d['iv']), 'OK %s,%s' % (d['z1'], d['z2']))
    keys = [(bytes(16), bytes(16)), (b'\xff' * 16, b'\xff' * 16),
            (bytes.fromhex('3d4c4be96a82fdaeb58f641db17b455b'), bytes.fromhex('84319aa8de6915ca1f6bda6bfbd8c766'))]
    keys += [(rb(rng, 16), rb(rng, 16)) for _ in range(3 if tier == 'thorough' else 1)]
    maxtotal = 12 if tier == 'thorough' else 7
    for ki, (k, iv) in enumerate(keys):
        if tier != 'thorough' and ki not in (0, 3):
            continue
        for total in range(0, maxtotal + 1):
            for comp in compositions(total):
                yield ('composition', 'zuc %s %s %s' % (hx(k), hx(iv), ' '.join(map(str, comp)) if comp else '0'), None)
    # zero-length requests interleaved
    for _ in range(200 if tier == 'thorough' else 40):
        k, iv = rb(rng, 16), rb(rng, 16)
        parts = []
        for _ in range(rng.randint(1, 10)):
            parts.append(rng.choice([0, 0, 1, 2, 3, rng.randint(0, 40)]))
        yield ('zero-requests', 'zuc %s %s %s' % (hx(k), hx(iv), ' '.join(map(str, parts))), None)
    # structured keys / ivs, 64 words (every S-box entry is read within a few words for most keys)
    pats = [bytes(16), b'\xff' * 16, bytes(range(16)), b'\x80' + bytes(15), bytes(15) + b'\x01', b'\x55' * 16, b'\xaa' * 16]
    for k in pats:
        for iv in pats:
            yield ('structured', 'zuc %s %s 64' % (hx(k), hx(iv)), None)
    for _ in range(300 if tier == 'thorough' else 40):
        yield ('random-64', 'zuc %s %s 64' % (hx(rb(rng, 16)), hx(rb(rng, 16))), None)
    # long streams with random splits
    long_total = 2 ** 16 if tier == 'thorough' else 2 ** 11
    for _ in range(3 if tier == 'thorough' else 1):
        k, iv = rb(rng, 16), rb(rng, 16)
        parts, left = [], long_total
        while left > 0:
            p = min(left, rng.choice([0, 1, 2, 31, 32, 33, rng.randint(1, 5000)]))
            parts.append(p)
            left -= p
        yield ('long-split', 'zuc %s %s %s' % (hx(k), hx(iv), ' '.join(map(str, parts))), None)
        yield ('long-single', 'zuc %s %s %d' % (hx(k), hx(iv), long_total), None)


# ----------------------------------------------------------------------------- C18
def words_hex(ws):
    return ','.join('%08x' % w for w in ws) if ws else '-'


def gen_c18(tier, rng):
    for name, d in std_vectors('eea3.'):
        ibs = bytes.fromhex(d['ibs'])
        obs = bytes.fromhex(d['obs'])
        w = lambda b: [int.from_bytes(b[i:i + 4], 'big') for i in range(0, len(b), 4)]
        yield ('std-vector', 'eea %s %s %s %s %s %s' % (d['ck'], d['count'], d['bearer'], d['direction'], d['length'], words_hex(w(ibs))), 'OK ' + words_hex(w(obs)))
    # the repo's EIA test vector
    yield ('std-vector', 'eia c9e6cec4607c72db000aefa88385ab0a a94059da a 1 241 983b41d4,7d780c9e,1ad11d7e,b70391b1,de0b35da,2dc62f83,e7b78d63,06ca0ea0,7e941b7b,e91348f9,fcb170e2,217fecd9,7f9f68ad,b16e5d7d,21e569d2,80ed775c,ebde3f40,93c53881,00000000', 'OK fae8ff0b')
    maxlen = 600 if tier == 'thorough' else 200
    for ln in range(0, maxlen + 1):
        k = rb(rng, 16)
        count = rng.getrandbits(32)
        bearer = rng.randrange(32)
        d = rng.randrange(2)
        nw = (ln + 31) // 32
        extra = rng.choice([0, 0, 1, 3])           # trailing garbage beyond LENGTH must not matter
        msg = [rng.getrandbits(32) for _ in range(nw + extra)]
        if ln >= 1:
            yield ('eea-len' + ('-mult32' if ln % 32 == 0 else ''), 'eea2 %s %x %x %x %x %s' % (hx(k), count, bearer, d, ln, words_hex(msg)), None)
        yield ('eia-len' + ('-mult32' if ln % 32 == 0 else ''), 'eia %s %x %x %x %x %s' % (hx(k), count, bearer, d, ln, words_hex(msg)), None)
        if ln >= 1 and (tier == 'thorough' or ln % 7 == 0):
            # same first LENGTH bits, different garbage after -> same MAC / same ciphertext prefix
            msg2 = list(msg)
            if ln % 32:
                msg2[nw - 1] ^= rng.getrandbits(32 - ln % 32)
            msg2 += [rng.getrandbits(32)]
            yield ('eia-garbage', 'eia %s %x %x %x %x %s' % (hx(k), count, bearer, d, ln, words_hex(msg2)), None)
            yield ('eea-garbage', 'eea %s %x %x %x %x %s' % (hx(k), count, bearer, d, ln, words_hex(msg2)), None)
    # keys / COUNT / BEARER / DIRECTION crafted so that the LFSR feedback of initialisation round 1 is 0, 1, .. 6 or -1 mod 2^31-1
    # (the canonical-representative and carry-fold boundary of the mod 2^31-1 arithmetic), through the 3GPP IV formats
    M_ = (1 << 31) - 1
    for off in ([0, 1, 2, 3, 5, 6, M_ - 1] if tier != 'thorough' else [0, 0, 1, 1, 2, 2, 3, 3, 4, 5, 5, 6, 6, M_ - 1, M_ - 2]):
        for eia_ in (False, True):
            k_, cnt_, b_, d_ = zuc_craft_3gpp(rng, off, eia_)
            msg = [rng.getrandbits(32) for _ in range(4)]
            yield ('lfsr-feedback-boundary-' + ('eia' if eia_ else 'eea'), '%s %s %x %x %x %x %s' % ('eia' if eia_ else 'eea', hx(k_), cnt_, b_, d_, 100, words_hex(msg)), None)
    # LENGTH next to 2^32 (ceil(LENGTH/32) = 2^27 words, 512 MiB synthesised in-process): real code only, against MACs frozen from
    # an independent C reference (thorough tier: about a minute per op)
    if tier == 'thorough':
        for name, d in std_vectors('eia3.big'):
            yield ('frozen-eia-length-near-2^32', 'eia_big %s %s %s %s %s %s' % (d['key'], d['count'], d['bearer'], d['dir'], d['length'], d['seed']), 'OK ' + d['mac'])
    # word counts at and around powers of two (chunked / blocked keystream generation: ceil(LENGTH/32) = 2^j - 1, 2^j, 2^j + 1,
    # j = 5..12 and 3*2^j), LENGTH a multiple of 32 and not
    js = range(5, 13) if tier == 'thorough' else (6, 8, 10, 11, 12)
    for j in js:
        for nw in sorted({(1 << j) - 1, 1 << j, (1 << j) + 1, 3 << (j - 1)}):
            for ln in (32 * nw, 32 * nw - rng.randint(1, 31)):
                msg = [rng.getrandbits(32) for _ in range(nw + rng.choice([0, 1]))]
                yield ('eea-wordcount-pow2', 'eea2 %s %x %x %x %x %s' % (hx(rb(rng, 16)), rng.getrandbits(32), rng.randrange(32), rng.randrange(2), ln, words_hex(msg)), None)
                if j <= 10 or tier == 'thorough':
                    yield ('eia-wordcount-pow2', 'eia %s %x %x %x %x %s' % (hx(rb(rng, 16)), rng.getrandbits(32), rng.randrange(32), rng.randrange(2), ln, words_hex(msg)), None)
    # word counts at multiples of 2047 = 65504/32 (the 3GPP maximum message: a natural block size of a "bounded memory" rewrite), +-1
    for kblk in ((1, 2, 3) if tier == 'thorough' else (1, 2)):
        for nw in (2047 * kblk - 1, 2047 * kblk, 2047 * kblk + 1):
            for ln in (32 * nw, 32 * nw - rng.randint(1, 31)):
                msg = [rng.getrandbits(32) for _ in range(nw)]
                yield ('eia-wordcount-3gpp-max-multiple', 'eia %s %x %x %x %x %s' % (hx(rb(rng, 16)), rng.getrandbits(32), rng.randrange(32), rng.randrange(2), ln, words_hex(msg)), None)
                if kblk == 1 or tier == 'thorough':
                    yield ('eea-wordcount-3gpp-max-multiple', 'eea2 %s %x %x %x %x %s' % (hx(rb(rng, 16)), rng.getrandbits(32), rng.randrange(32), rng.randrange(2), ln, words_hex(msg)), None)
    # structured message contents: all-zero / all-one words and bytes embedded between non-zero ones, zero prefix / suffix,
    # a single set bit (word-wise or byte-wise shortcuts over "empty" input words must not change positions)
    for t in range(40 if tier == 'thorough' else 16):
        nw = rng.randint(2, 12)
        msg = [rng.getrandbits(32) for _ in range(nw)]
        kind = t % 8
        if kind == 0:
            msg[rng.randrange(nw - 1)] = 0
        elif kind == 1:
            for i in range(0, nw - 1, 2):
                msg[i] = 0
        elif kind == 2:
            msg = [0] * (nw - 1) + [msg[-1] | 1]
        elif kind == 3:
            msg[rng.randrange(nw)] = 0xffffffff
        elif kind == 4:
            msg = [0] * nw
            msg[rng.randrange(nw)] = 1 << rng.randrange(32)
        elif kind == 5:
            msg = [w & rng.choice([0x00ffffff, 0xff00ffff, 0xffff00ff, 0xffffff00, 0x0000ffff, 0xffff0000]) for w in msg]
        elif kind == 6:
            msg[0] = 0
            msg[-1] = 0
        else:
            msg = [0, 0] + msg[2:] if nw > 2 else [0, msg[1] | 1]
        for ln in (32 * nw, 32 * nw - rng.randint(1, 31)):
            yield ('eia-structured-words', 'eia %s %x %x %x %x %s' % (hx(rb(rng, 16)), rng.getrandbits(32), rng.randrange(32), rng.randrange(2), ln, words_hex(msg)), None)
            yield ('eea-structured-words', 'eea2 %s %x %x %x %x %s' % (hx(rb(rng, 16)), rng.getrandbits(32), rng.randrange(32), rng.randrange(2), ln, words_hex(msg)), None)
    # all bearers x directions
    k = rb(rng, 16)
    for bearer in range(32):
        for d in range(2):
            ln = rng.randint(1, 100)
            msg = [rng.getrandbits(32) for _ in range((ln + 31) // 32)]
            yield ('bearer-dir', 'eea %s %x %x %x %x %s' % (hx(k), 0x12345678, bearer, d, ln, words_hex(msg)), None)
            yield ('bearer-dir', 'eia %s %x %x %x %x %s' % (hx(k), 0x12345678, bearer, d, ln, words_hex(msg)), None)
    # count extremes
    for count in (0, 1, 0x80000000, 0xffffffff):
        msg = [rng.getrandbits(32) for _ in range(4)]
        yield ('count-extreme', 'eea %s %x 5 1 64 %s' % (hx(k), count, words_hex(msg)), None)
        yield ('count-extreme', 'eia %s %x 5 1 64 %s' % (hx(k), count, words_hex(msg)), None)
    for _ in range(20 if tier == 'thorough' else 4):
        ln = rng.randint(601, 6000)
        msg = [rng.getrandbits(32) for _ in range((ln + 31) // 32)]
        yield ('random-long', 'eea2 %s %x %x %x %x %s' % (hx(rb(rng, 16)), rng.getrandbits(32), rng.randrange(32), rng.randrange(2), ln, words_hex(msg)), None)
        yield ('random-long', 'eia %s %x %x %x %x %s' % (hx(rb(rng, 16)), rng.getrandbits(32), rng.randrange(32), rng.randrange(2), ln, words_hex(msg)), None)
