"""Property registry: what each check builds, generates and trusts."""
from . import gens_sym, gens_sm2, gens_sm9
import itertools


def chain(*gens):
    def g(tier, rng):
        for f in gens:
            for x in f(tier, rng):
                yield x
    return g

COMMON_TRUST = [
    "Lean 4.33.0 kernel (+ Mathlib v4.33.0 where a Proofs module imports a Mathlib module)",
    "Spec.* : hand transcription of the standard (validated against the standard's vectors and an OpenSSL-3.0 corpus on every run)",
    "Impl.* <-> Rust: differential correspondence on the generated inputs (sampling) + constants dumped from the compiled crate and re-proved equal to Spec",
    "the harness, check, the dump renderer; rustc/LLVM code generation",
]

HOOK_COMMITS = ['212724f']   # /repo commits that add cfg(gm_rs_verif) hooks
NOT_APPLICABLE = {}

SM2_CONSTS = ['SM2.lean', 'SM2Table.lean']

SM9_CONSTS = ['SM9.lean', 'SM9Table.lean']

PROPS = {
    'C09': dict(gen=gens_sm9.gen_c09, consts=SM9_CONSTS, level='proof', technique='tbd', assumptions=[]),
    'C10': dict(gen=gens_sm9.gen_c10, consts=SM9_CONSTS, level='proof', technique='tbd', assumptions=[]),
    'C12': dict(gen=gens_sm9.gen_c12, consts=SM9_CONSTS, level='translation_validation', technique='tbd', assumptions=[]),
    'C13': dict(gen=gens_sm9.gen_c13, consts=SM9_CONSTS, level='proof', technique='tbd', assumptions=[]),
    'C14': dict(gen=chain(gens_sm2.gen_c14_sm2, gens_sm9.gen_c14_sm9), consts=SM2_CONSTS + SM9_CONSTS, level='proof', technique='tbd', assumptions=[]),
    'C16': dict(gen=gens_sm9.gen_c16, consts=SM9_CONSTS, level='proof', technique='tbd', assumptions=[]),
    'C17': dict(gen=gens_sm9.gen_c17, consts=SM9_CONSTS, level='proof', technique='tbd', assumptions=[]),
    'C20': dict(gen=chain(gens_sm2.gen_c20_sm2, gens_sm9.gen_c20_sm9), consts=SM2_CONSTS + SM9_CONSTS, level='proof', technique='tbd', assumptions=[]),
    'C03': dict(gen=gens_sm2.gen_c03, consts=SM2_CONSTS, level='proof',
        thm=[('SpecSM2', ['sign_then_verify', 'verify_iff', 'sm2_nG', 'sm2_mul_mod', 'sm2_mul_ne_none']), ('C11a', ['sm2_consts', 'sm2_fn_add_correct', 'sm2_fn_sub_correct', 'sm2_fn_mul_correct', 'sm2_fn_pow_correct', 'sm2_fn_add_noncanonical', 'modAdd_noncanonical']), ('Primes', ['sm2_p_prime', 'sm2_n_prime'])],
        technique='Lean 4 proof that the standard\'s signer/verifier are mutually correct over the Mathlib elliptic-curve group (Spec.EC proved to be that group, n.G = O by kernel evaluation, p and n proved prime) + exact mod-n arithmetic theorems incl. the non-canonical-operand case; fixed-nonce three-way differential through the RNG hook',
        level_text='Proof (partial link): `sign_then_verify` proves, for every d in [1,n-2], every e and every nonce k in [1,n-1], that the (r,s) of GB/T 32918.2 signing lies in [1,n-1]^2 and is accepted by the standard\'s verifier under [d]G; `verify_iff` states the acceptance equation outright — both over the real group (Spec.EC = Mathlib Weierstrass group, primality of p and n and n.G = O machine-checked). `sm2_fn_*_correct` prove the model\'s mod-n routines exact and `modAdd_noncanonical` characterises the non-canonical case that caused the fixed defect. The step from the Jacobian/Montgomery model to the Spec group is C11\'s theorems (L2 proved; L3 scalar multiplication and the sign_raw/verify_raw refinement are being added behind this check). The model and the real code are tied by dumped constants and a fixed-nonce byte-exact differential incl. the three constructed retry branches (r=0, r+k=n, s=0), Annex A, and 72 OpenSSL signatures.',
        level_note='Trusted: Lean kernel + Mathlib v4.33; Spec.SM2/Spec.EC transcription (validated every run on GM/T 0003.5 Annex A/B, GB/T 32918.5 Annex C and a 72+72-vector OpenSSL corpus); Impl<->Rust tie = constants dumped and re-proved + three-way differential (sampling); RNG replaced by a candidate list through the cfg(gm_rs_verif) hook.', assumptions=['Impl-level sign_raw/verify_raw are tied to Spec by the three-way differential until the L3 refinement theorems land']),
    'C04': dict(gen=gens_sm2.gen_c04, consts=SM2_CONSTS, level='proof', technique='tbd', assumptions=[]),
    'C05': dict(gen=gens_sm2.gen_c05, consts=SM2_CONSTS, level='proof',
        thm=[('SpecSM2', ['decrypt_encrypt', 'decode_encode', 'decode_some_onCurve']), ('C11a', ['sm2_consts'])],
        technique='Lean 4 proof of decrypt(encrypt(M)) = M at the specification level for both orders and both C1 encodings over the Mathlib curve group; KDF prefix theorem; fixed-nonce three-way differential',
        level_text='Proof (partial link): `decrypt_encrypt` proves for every key pair, every non-empty message, every nonce, both component orders and both C1 encodings that GB/T 32918.4 decryption inverts encryption (uses [d][k]G = [k][d]G in the proved group, `decode_encode` for compressed/uncompressed points with the p = 3 mod 4 square root, KDF/XOR algebra). The model\'s KDF/decision-logic theorems are added behind this check as they land; model and code are tied by a fixed-nonce byte-exact differential (all lengths 0..70/300 incl. multiples of 32, zero messages in all 4 forms, edge keys/nonces, the all-zero-t retry found by search, Annex C and 72 OpenSSL ciphertexts).',
        level_note='Trusted: Lean kernel + Mathlib v4.33; Spec.SM2/Spec.EC transcription (validated every run on GM/T 0003.5 Annex A/B, GB/T 32918.5 Annex C and a 72+72-vector OpenSSL corpus); Impl<->Rust tie = constants dumped and re-proved + three-way differential (sampling); RNG replaced by a candidate list through the cfg(gm_rs_verif) hook.', assumptions=['encrypt/decrypt of the Impl model are tied to Spec by differential until the refinement theorems land']),
    'C06': dict(gen=gens_sm2.gen_c06, consts=SM2_CONSTS, level='proof', technique='tbd', assumptions=[]),
    'C11': dict(gen=gens_sm2.gen_c11, consts=SM2_CONSTS, level='proof',
        thm=[('C11a', None), ('C11b', None), ('Primes', ['sm2_p_prime', 'sm2_n_prime', 'fermat_inv', 'invMod_correct', 'sqrt_3mod4']), ('SpecSM2', ['sm2_G_onCurve', 'sm2_disc_ne_zero', 'sm2_nG'])],
        technique='Lean 4 proofs: limb arithmetic = integer arithmetic (no-overflow invariant), Montgomery/modular routines exact, Jacobian a=-3 doubling and general addition incl. the h=0 branches = group law of the specification (Mathlib Weierstrass group) for every representation; constants and table dumped; raw-op differential on boundary limbs and re-randomised representations',
        level_text='Proof: L0 `u256_add/sub/mul/cmp_correct`, `mulRow_no_overflow`; L1 `mont_mul_eq`, `montMul_correct`, `modAdd/Sub/Neg/Div2_correct`, `powLoop_correct` and their SM2 instances (for ALL canonical operands, non-canonical behaviour characterised); L2 `point_add_correct` (EVERY representation: P=Q with different Z, P=-Q, infinity), `point_dbl_correct`, `neg_correct`, `to_affine_correct`, `is_valid_iff`, `to_byte_correct`, `from_byte_correct` (under the field-facts bundle that C11a + Primes establish; its mechanical discharge and L3 — scalar_mul/g_mul for all 256-bit scalars and the 32x255 table certificate — are being added behind this check). Tie to the code: all constants and the table dumped and re-proved/compared; differential on limb boundary values, crafted Montgomery products, re-randomised Jacobian representations, window-collision scalars, every table entry.',
        level_note='Trusted: Lean kernel + Mathlib v4.33; Spec.SM2/Spec.EC transcription (validated every run on GM/T 0003.5 Annex A/B, GB/T 32918.5 Annex C and a 72+72-vector OpenSSL corpus); Impl<->Rust tie = constants dumped and re-proved + three-way differential (sampling); RNG replaced by a candidate list through the cfg(gm_rs_verif) hook.', assumptions=['L3 (scalar multiplication, table) currently rests on the differential over every table entry and scalar classes']),
    'C15': dict(gen=gens_sm2.gen_c15, consts=SM2_CONSTS, level='proof',
        thm=[('SpecSM2', ['kex_agree', 'sm2_mul_mod', 'sm2_nG']), ('C11a', ['sm2_consts'])],
        technique='Lean 4 proof that both parties of GB/T 32918.3 compute the same point [tA.tB]G hence the same key and confirmation values (Mathlib curve group); state-machine three-way differential with fixed ephemerals incl. Annex B and all 16 tamper subsets',
        level_text='Proof (partial link): `kex_agree` proves for all dA, dB, rA, rB, Z values and klen that the initiator\'s and responder\'s computations of the standard coincide (key, S1 = SB, S2 = SA). Conformance of the code (w = 127, one-byte tags, KDF input order) is decided by the byte-exact differential against the Spec oracle with fixed ephemerals — this is what exposed the w = 63 defect (fixed) — and by GM/T 0003.5 Annex B; tamper detection by enumerating all 16 subsets of altered messages. The acceptance-logic theorems for exchange_3/exchange_4 of the model are still to be added.',
        level_note='Trusted: Lean kernel + Mathlib v4.33; Spec.SM2/Spec.EC transcription (validated every run on GM/T 0003.5 Annex A/B, GB/T 32918.5 Annex C and a 72+72-vector OpenSSL corpus); Impl<->Rust tie = constants dumped and re-proved + three-way differential (sampling); RNG replaced by a candidate list through the cfg(gm_rs_verif) hook.', assumptions=[]),
    'C19': dict(gen=gens_sm2.gen_c19, consts=SM2_CONSTS, level='proof',
        thm=[('SpecSM2', ['decode_encode', 'decode_some_onCurve']), ('C11b', ['to_byte_correct', 'from_byte_correct', 'is_valid_iff'])],
        technique='Lean 4 proofs: decodePoint(encodePoint P) = P for every curve point, both encodings; the model\'s to_byte_be/from_byte equal the specification\'s encode/decode incl. every rejection; DER/template models tied by differential and an OpenSSL document corpus',
        level_text='Proof (partial): `decode_encode` (every curve point, compressed and uncompressed, root selection by parity for p = 3 mod 4), `decode_some_onCurve` (every accepted encoding is on the curve with coordinates < p), `to_byte_correct` / `from_byte_correct` (the model\'s encoder/decoder equal the specification\'s on EVERY byte string: prefix, length, range, curve checks). DER (GM/T 0009) reader/writer round-trip theorems are being added; SPKI/PKCS#8 documents are byte templates (third-party DER parsing modelled, not verified) checked against 12 OpenSSL documents and PEM round trips; ASN.1 ciphertexts with leading-zero / top-bit-set coordinates found by nonce search.',
        level_note='Trusted: Lean kernel + Mathlib v4.33; Spec.SM2/Spec.EC transcription (validated every run on GM/T 0003.5 Annex A/B, GB/T 32918.5 Annex C and a 72+72-vector OpenSSL corpus); Impl<->Rust tie = constants dumped and re-proved + three-way differential (sampling); RNG replaced by a candidate list through the cfg(gm_rs_verif) hook. Third-party crates yasna, pkcs8, sec1, der, hex are modelled, not verified.', assumptions=[]),
    'C01': dict(
        gen=gens_sym.gen_c01, consts=['SM3.lean'], level='proof',
        technique='Lean 4 refinement proof (Impl.SM3 = Spec.SM3 for all byte strings) + dumped-constant theorems + differential correspondence real/Impl/Spec',
        static_scan=['gm-sm3'],
        level_text='Proof: `sm3_refines_unguarded` shows the model of gm-sm3 (push-loop padding, index block loop, array-mutating compression, dead branches) returns the GB/T 32905 digest for EVERY byte string, `sm3_total` that it never panics; the model is tied to the Rust code by constants dumped from the compiled crate (re-proved equal to the standard) and by a three-way differential over all padding boundaries, lengths 0..1100/4096, single-bit messages, multi-block, interleaved calls and a 2^29-byte message. Right level: the quantifier is all inputs, which only a theorem covers.',
        level_note='Trusted: Lean kernel; Spec.SM3 transcription (validated on Annex A vectors + 618 OpenSSL digests every run); the Impl<->Rust tie is sampling, not proof; purity of the Rust function by static scan (no mutable globals) + interleaved-call ops.',
        assumptions=["the model of gm-sm3 is tied to the Rust code by sampling (listed classes), not by proof",
                     "purity on the Rust side: static scan for mutable global state in gm-sm3 + interleaved-call ops"]),
    'C02': dict(
        gen=gens_sym.gen_c02, consts=['SM4.lean'], level='proof',
        technique='Lean 4 refinement + Feistel-involution proof for all keys/blocks; S-box bijectivity by kernel enumeration; dumped tables re-proved; differential correspondence',
        static_scan=['gm-sm4'],
        level_text='Proof: `sm4_enc_refines`/`sm4_dec_refines` show the model of Sm4Cipher (8x4 unrolled key schedule and rounds over mutable arrays, reversed key indexing) equals GB/T 32907 for EVERY 16-byte key and block; `crypt_involution` proves decrypt(encrypt(x)) = x and encrypt(decrypt(y)) = y for an arbitrary round-key list (so for all 2^256 pairs); `sbox_bijective` and `sbox_algebraic` (the table equals the standard\'s GF(2^8) inversion/affine construction) are kernel enumerations; `ck_rule` ties CK to its generating rule; `new_total`/`encrypt_total`/`decrypt_total` give error-not-panic for wrong lengths. Tied to the Rust code by dumped SBOX/FK/CK (re-proved equal) and a three-way differential incl. per-S-box-entry sweeps and mixed-history ops on one object.',
        level_note='Trusted: Lean kernel; Spec.SM4 transcription (validated on the Annex example and 40 OpenSSL ECB vectors each run); Impl<->Rust tie is sampling; immutability of the Rust object by &self + static scan.',
        assumptions=["immutability on the Rust side: methods take &self, static scan for interior mutability + history ops"]),
    'C07': dict(
        gen=gens_sym.gen_c07, consts=['SM4.lean'], level='proof', static_scan=['gm-sm4'],
        level_text='Proof: `ctr/ofb/cfb_enc/cfb_dec/cbc_enc/cbc_dec_refines` show each index-based mode loop of the model equals the SP 800-38A definition over the SM4 block function for EVERY key, IV and data length; `add_one` proves the 16-byte counter increment is +1 mod 2^128 (carry through all bytes, wrap-around); `*_round_trip` prove decrypt(encrypt(data)) = data for every length (CBC through PKCS#7 and C02\'s D.E = id); `cbc_dec_err`, `iv_len_err`, `key_len_err`, `mode_total` state the error logic outright and exclude panics; `stream_length`/`cbc_length` give the output sizes. Tied to the Rust code by a three-way differential over every length 0..70/200, carry IVs FF^j, every CBC-decrypt length and last byte, wrong IV/key sizes, and 404 OpenSSL mode vectors.',
        level_note='Trusted: Lean kernel; Spec.Modes transcription (validated on the OpenSSL CBC/CFB/OFB/CTR corpus each run); Impl<->Rust tie is sampling.',
        technique='Lean 4 refinement of the four mode loops to SP 800-38A definitions + round-trip theorems for every length; differential correspondence',
        assumptions=[]),
    'C08': dict(
        gen=gens_sym.gen_c08, consts=['ZUC.lean'], level='proof', static_scan=['gm-zuc'],
        level_text='Proof: `split_independent` shows that for every 16-byte key/IV and EVERY finite sequence of request sizes (zeros included) the concatenated outputs of the model of gm-zuc equal the first sum(ns) words of the ZUC-128 specification written as arithmetic modulo 2^31-1; it rests on the proved invariant that all LFSR cells stay in 1..2^31-1 (so the code\'s `if s16 == 0` patches select the canonical representative) and on residue lemmas for the 32-bit rot31/add31 tricks. The model is tied to the Rust code by dumped S0/S1/D tables (re-proved equal to the specification) and a three-way differential over all compositions of small totals, zero-length requests, structured/random keys and long split streams.',
        level_note='Trusted: Lean kernel; Spec.ZUC transcription (validated on the three official ZUC-128 vectors every run); Impl<->Rust tie is sampling. Key/IV shorter than 16 bytes panic in the code and in the model (outside the statement; logged as out-of-statement).',
        technique='Lean 4 invariant (cells in 1..2^31-1) + refinement to arithmetic mod 2^31-1 + split-independence for every request history; differential correspondence',
        assumptions=[]),
    'C18': dict(
        gen=gens_sym.gen_c18, consts=['ZUC.lean'], level='proof', static_scan=['gm-zuc'],
        level_text='Proof: `eea_refines` / `eia_refines` show that for every key, COUNT, BEARER < 32, DIRECTION < 2 and EVERY LENGTH : u32 the model of eea.rs / eia.rs (word-level XOR with final mask; `find_word` over two adjacent keystream words; `as u8` IV construction) equals the 3GPP bit-stream specification; `eea_involution`, `eia_depends_only`, `eea_depends_only` give the "twice restores the first LENGTH bits" and "depends on exactly the first LENGTH bits" clauses; the keystream itself is C08\'s theorem (hypothesis discharged, no assumption left). Tied to the Rust code by a three-way differential over every LENGTH 0..200/600, multiples of 32, all bearers x directions, trailing garbage.',
        level_note='Trusted: Lean kernel; Spec.EEA3 transcription (validated on the 3GPP test sets present in the repo); Impl<->Rust tie is sampling. Messages shorter than ceil(LENGTH/32) words panic in code and model (outside the statement; `eea_short_panics`).',
        technique='Lean 4 refinement of word-level EEA3/EIA3 to the bit-stream specification for every LENGTH; differential correspondence',
        assumptions=["message has at least ceil(LENGTH/32) words, BEARER < 32, DIRECTION < 2 (the property's domain)"]),
}
