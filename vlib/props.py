"""Property registry: what each check builds, generates and trusts."""
from . import gens_sym, gens_sm2, gens_sm9
import itertools


def chain(*gens):
    def g(tier, rng):
        for f in gens:
            for x in f(tier, rng):
                yield x
    return g

COMMON_TRUST = [
    "Lean 4.33.0 kernel (+ Mathlib v4.33.0 where a Proofs module imports a Mathlib module)",
    "Spec.* : hand transcription of the standard (validated against the standard's vectors and an OpenSSL-3.0 corpus on every run)",
    "Impl.* <-> Rust: differential correspondence on the generated inputs (sampling) + constants dumped from the compiled crate and re-proved equal to Spec",
    "the harness, check, the dump renderer; rustc/LLVM code generation",
]

HOOK_COMMITS = ['212724f']   # /repo commits that add cfg(gm_rs_verif) hooks
NOT_APPLICABLE = {}

SM2_CONSTS = ['SM2.lean', 'SM2Table.lean']

SM9_CONSTS = ['SM9.lean', 'SM9Table.lean']

PROPS = {
    'C09': dict(gen=gens_sm9.gen_c09, consts=SM9_CONSTS, level='proof', technique='tbd', assumptions=[]),
    'C10': dict(gen=gens_sm9.gen_c10, consts=SM9_CONSTS, level='proof', technique='tbd', assumptions=[]),
    'C12': dict(gen=gens_sm9.gen_c12, consts=SM9_CONSTS, level='translation_validation', technique='tbd', assumptions=[]),
    'C13': dict(gen=gens_sm9.gen_c13, consts=SM9_CONSTS, level='proof', technique='tbd', assumptions=[]),
    'C14': dict(gen=chain(gens_sm2.gen_c14_sm2, gens_sm9.gen_c14_sm9), consts=SM2_CONSTS + SM9_CONSTS, level='proof', technique='tbd', assumptions=[]),
    'C16': dict(gen=gens_sm9.gen_c16, consts=SM9_CONSTS, level='proof', technique='tbd', assumptions=[]),
    'C17': dict(gen=gens_sm9.gen_c17, consts=SM9_CONSTS, level='proof', technique='tbd', assumptions=[]),
    'C20': dict(gen=chain(gens_sm2.gen_c20_sm2, gens_sm9.gen_c20_sm9), consts=SM2_CONSTS + SM9_CONSTS, level='proof', technique='tbd', assumptions=[]),
    'C03': dict(gen=gens_sm2.gen_c03, consts=SM2_CONSTS, level='proof', technique='tbd', assumptions=[]),
    'C04': dict(gen=gens_sm2.gen_c04, consts=SM2_CONSTS, level='proof', technique='tbd', assumptions=[]),
    'C05': dict(gen=gens_sm2.gen_c05, consts=SM2_CONSTS, level='proof', technique='tbd', assumptions=[]),
    'C06': dict(gen=gens_sm2.gen_c06, consts=SM2_CONSTS, level='proof', technique='tbd', assumptions=[]),
    'C11': dict(gen=gens_sm2.gen_c11, consts=SM2_CONSTS, level='proof', technique='tbd', assumptions=[]),
    'C15': dict(gen=gens_sm2.gen_c15, consts=SM2_CONSTS, level='proof', technique='tbd', assumptions=[]),
    'C19': dict(gen=gens_sm2.gen_c19, consts=SM2_CONSTS, level='proof', technique='tbd', assumptions=[]),
    'C01': dict(
        gen=gens_sym.gen_c01, consts=['SM3.lean'], level='proof',
        technique='Lean 4 refinement proof (Impl.SM3 = Spec.SM3 for all byte strings) + dumped-constant theorems + differential correspondence real/Impl/Spec',
        static_scan=['gm-sm3'],
        level_text='Proof: `sm3_refines_unguarded` shows the model of gm-sm3 (push-loop padding, index block loop, array-mutating compression, dead branches) returns the GB/T 32905 digest for EVERY byte string, `sm3_total` that it never panics; the model is tied to the Rust code by constants dumped from the compiled crate (re-proved equal to the standard) and by a three-way differential over all padding boundaries, lengths 0..1100/4096, single-bit messages, multi-block, interleaved calls and a 2^29-byte message. Right level: the quantifier is all inputs, which only a theorem covers.',
        level_note='Trusted: Lean kernel; Spec.SM3 transcription (validated on Annex A vectors + 618 OpenSSL digests every run); the Impl<->Rust tie is sampling, not proof; purity of the Rust function by static scan (no mutable globals) + interleaved-call ops.',
        assumptions=["the model of gm-sm3 is tied to the Rust code by sampling (listed classes), not by proof",
                     "purity on the Rust side: static scan for mutable global state in gm-sm3 + interleaved-call ops"]),
    'C02': dict(
        gen=gens_sym.gen_c02, consts=['SM4.lean'], level='proof',
        technique='Lean 4 refinement + Feistel-involution proof for all keys/blocks; S-box bijectivity by kernel enumeration; dumped tables re-proved; differential correspondence',
        static_scan=['gm-sm4'],
        level_text='Proof: `sm4_enc_refines`/`sm4_dec_refines` show the model of Sm4Cipher (8x4 unrolled key schedule and rounds over mutable arrays, reversed key indexing) equals GB/T 32907 for EVERY 16-byte key and block; `crypt_involution` proves decrypt(encrypt(x)) = x and encrypt(decrypt(y)) = y for an arbitrary round-key list (so for all 2^256 pairs); `sbox_bijective` and `sbox_algebraic` (the table equals the standard\'s GF(2^8) inversion/affine construction) are kernel enumerations; `ck_rule` ties CK to its generating rule; `new_total`/`encrypt_total`/`decrypt_total` give error-not-panic for wrong lengths. Tied to the Rust code by dumped SBOX/FK/CK (re-proved equal) and a three-way differential incl. per-S-box-entry sweeps and mixed-history ops on one object.',
        level_note='Trusted: Lean kernel; Spec.SM4 transcription (validated on the Annex example and 40 OpenSSL ECB vectors each run); Impl<->Rust tie is sampling; immutability of the Rust object by &self + static scan.',
        assumptions=["immutability on the Rust side: methods take &self, static scan for interior mutability + history ops"]),
    'C07': dict(
        gen=gens_sym.gen_c07, consts=['SM4.lean'], level='proof', static_scan=['gm-sm4'],
        level_text='Proof: `ctr/ofb/cfb_enc/cfb_dec/cbc_enc/cbc_dec_refines` show each index-based mode loop of the model equals the SP 800-38A definition over the SM4 block function for EVERY key, IV and data length; `add_one` proves the 16-byte counter increment is +1 mod 2^128 (carry through all bytes, wrap-around); `*_round_trip` prove decrypt(encrypt(data)) = data for every length (CBC through PKCS#7 and C02\'s D.E = id); `cbc_dec_err`, `iv_len_err`, `key_len_err`, `mode_total` state the error logic outright and exclude panics; `stream_length`/`cbc_length` give the output sizes. Tied to the Rust code by a three-way differential over every length 0..70/200, carry IVs FF^j, every CBC-decrypt length and last byte, wrong IV/key sizes, and 404 OpenSSL mode vectors.',
        level_note='Trusted: Lean kernel; Spec.Modes transcription (validated on the OpenSSL CBC/CFB/OFB/CTR corpus each run); Impl<->Rust tie is sampling.',
        technique='Lean 4 refinement of the four mode loops to SP 800-38A definitions + round-trip theorems for every length; differential correspondence',
        assumptions=[]),
    'C08': dict(
        gen=gens_sym.gen_c08, consts=['ZUC.lean'], level='proof', static_scan=['gm-zuc'],
        level_text='Proof: `split_independent` shows that for every 16-byte key/IV and EVERY finite sequence of request sizes (zeros included) the concatenated outputs of the model of gm-zuc equal the first sum(ns) words of the ZUC-128 specification written as arithmetic modulo 2^31-1; it rests on the proved invariant that all LFSR cells stay in 1..2^31-1 (so the code\'s `if s16 == 0` patches select the canonical representative) and on residue lemmas for the 32-bit rot31/add31 tricks. The model is tied to the Rust code by dumped S0/S1/D tables (re-proved equal to the specification) and a three-way differential over all compositions of small totals, zero-length requests, structured/random keys and long split streams.',
        level_note='Trusted: Lean kernel; Spec.ZUC transcription (validated on the three official ZUC-128 vectors every run); Impl<->Rust tie is sampling. Key/IV shorter than 16 bytes panic in the code and in the model (outside the statement; logged as out-of-statement).',
        technique='Lean 4 invariant (cells in 1..2^31-1) + refinement to arithmetic mod 2^31-1 + split-independence for every request history; differential correspondence',
        assumptions=[]),
    'C18': dict(
        gen=gens_sym.gen_c18, consts=['ZUC.lean'], level='proof', static_scan=['gm-zuc'],
        level_text='Proof: `eea_refines` / `eia_refines` show that for every key, COUNT, BEARER < 32, DIRECTION < 2 and EVERY LENGTH : u32 the model of eea.rs / eia.rs (word-level XOR with final mask; `find_word` over two adjacent keystream words; `as u8` IV construction) equals the 3GPP bit-stream specification; `eea_involution`, `eia_depends_only`, `eea_depends_only` give the "twice restores the first LENGTH bits" and "depends on exactly the first LENGTH bits" clauses; the keystream itself is C08\'s theorem (hypothesis discharged, no assumption left). Tied to the Rust code by a three-way differential over every LENGTH 0..200/600, multiples of 32, all bearers x directions, trailing garbage.',
        level_note='Trusted: Lean kernel; Spec.EEA3 transcription (validated on the 3GPP test sets present in the repo); Impl<->Rust tie is sampling. Messages shorter than ceil(LENGTH/32) words panic in code and model (outside the statement; `eea_short_panics`).',
        technique='Lean 4 refinement of word-level EEA3/EIA3 to the bit-stream specification for every LENGTH; differential correspondence',
        assumptions=["message has at least ceil(LENGTH/32) words, BEARER < 32, DIRECTION < 2 (the property's domain)"]),
}
