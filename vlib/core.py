"""Core of the check runner: build (cargo, lake), constant dump -> Gen/*.lean, three-way
correspondence (real code / Impl model / Spec oracle), verdict, evidence."""
import fcntl, hashlib, json, os, re, subprocess, sys, time, random
from concurrent.futures import ThreadPoolExecutor

ROOT = os.path.dirname(os.path.dirname(os.path.abspath(__file__)))
LEAN = os.path.join(ROOT, 'lean')
HARNESS_DIR = os.path.join(ROOT, 'harness')
HARNESS = os.path.join(HARNESS_DIR, 'target', 'release', 'gmverif-harness')
DRIVER = os.path.join(LEAN, '.lake', 'build', 'bin', 'driver')
WORK = os.path.join(ROOT, 'work')
REPLAYS = os.path.join(ROOT, 'replays')
EVID = os.path.join(ROOT, 'evidence')
ALLOWED_AXIOMS = {'propext', 'Classical.choice', 'Quot.sound'}
FORBIDDEN = re.compile(r'\b(sorry|admit|native_decide|implemented_by)\b|^\s*axiom\s|\bunsafe\s|maxHeartbeats\s+0\b')
ENV = dict(os.environ, CARGO_NET_OFFLINE='true')

os.makedirs(WORK, exist_ok=True)
os.makedirs(REPLAYS, exist_ok=True)
os.makedirs(EVID, exist_ok=True)


class Lock:
    def __init__(self, name):
        self.path = os.path.join(WORK, name + '.lock')
    def __enter__(self):
        self.f = open(self.path, 'w')
        fcntl.flock(self.f, fcntl.LOCK_EX)
    def __exit__(self, *a):
        fcntl.flock(self.f, fcntl.LOCK_UN)
        self.f.close()


def sh(cmd, cwd=None, timeout=None, inp=None):
    p = subprocess.run(cmd, cwd=cwd, env=ENV, stdout=subprocess.PIPE, stderr=subprocess.STDOUT,
                       input=inp, timeout=timeout, text=True)
    return p.returncode, p.stdout


def build_harness():
    """cargo build of the harness against /repo's working tree, hooks on."""
    with Lock('cargo'):
        lock = os.path.join(HARNESS_DIR, 'Cargo.lock')
        if not os.path.exists(lock):
            import shutil
            shutil.copy('/repo/Cargo.lock', lock)
        rc, out = sh(['cargo', 'build', '--release', '--offline'], cwd=HARNESS_DIR, timeout=1800)
    return rc == 0, out


def dump_consts():
    """harness dump -> Gen/*.lean (rewritten only when the content changes)."""
    rc, out = sh([HARNESS, 'dump'], timeout=300)
    if rc != 0:
        return False, out, []
    from . import gen_lean
    changed = gen_lean.render(out, os.path.join(LEAN, 'GmVerif', 'Gen'))
    return True, out, changed


def run_translator(spec):
    """Second tie (DESIGN 13.16): regenerate the Lean translation of a Rust source file with tools/rs2lean.py (rewritten only when the
    content changes).  spec = dict(src=<path under /repo>, outs=[(lean file name under Gen/, [extra args])...]).
    Returns (ok, message, changed-files)."""
    changed = []
    for name, extra in spec['outs']:
        dst = os.path.join(LEAN, 'GmVerif', 'Gen', name)
        tmp = dst + '.tmp.%d' % os.getpid()
        rc, out = sh(['python3', os.path.join(ROOT, 'tools', 'rs2lean.py'), os.path.join('/repo', spec['src']), tmp] + extra, timeout=120)
        if rc != 0:
            if os.path.exists(tmp):
                os.remove(tmp)
            return False, 'translator rejected %s: %s' % (spec['src'], out.strip()[-400:]), changed
        new = open(tmp).read()
        old = open(dst).read() if os.path.exists(dst) else None
        if new != old:
            os.replace(tmp, dst)
            changed.append(name)
        else:
            os.remove(tmp)
    return True, '', changed


def lake_build(targets, timeout=3600):
    with Lock('lake'):
        rc, out = sh(['lake', 'build'] + targets, cwd=LEAN, timeout=timeout)
    return rc == 0, out


def strip_comments(src):
    # remove /- ... -/ (nested not handled beyond one level) and -- line comments
    src = re.sub(r'/-.*?-/', '', src, flags=re.S)
    src = re.sub(r'--.*', '', src)
    return src


def theorem_names(path):
    """theorem names declared in a Thm file (with their namespace)."""
    src = strip_comments(open(path).read())
    ns = re.search(r'^namespace\s+(\S+)', src, flags=re.M)
    prefix = ns.group(1) + '.' if ns else ''
    return [prefix + m for m in re.findall(r'^\s*theorem\s+([^\s:({\[]+)', src, flags=re.M)]


def forbidden_hits(paths):
    hits = []
    for p in paths:
        src = strip_comments(open(p).read())
        for i, line in enumerate(src.splitlines(), 1):
            if FORBIDDEN.search(line):
                hits.append(f'{os.path.relpath(p, LEAN)}:{i}: {line.strip()[:100]}')
    return hits


def lean_imports_closure(module):
    """project-local transitive imports of a module (file paths)."""
    seen, todo = {}, [module]
    while todo:
        m = todo.pop()
        if m in seen or not m.startswith('GmVerif'):
            continue
        p = os.path.join(LEAN, m.replace('.', '/') + '.lean')
        if not os.path.exists(p):
            continue
        seen[m] = p
        for imp in re.findall(r'^import\s+(\S+)', open(p).read(), flags=re.M):
            todo.append(imp)
    return seen


def run_leanchecker(modules, jobs=8):
    """thorough tier: replay the compiled declarations of the given project modules through Lean's independent re-checker
    (`leanchecker`, ships with the toolchain). Returns a list of failures `module: message`."""
    from concurrent.futures import ThreadPoolExecutor
    def one(m):
        rc, out = sh(['lake', 'env', 'leanchecker', m], cwd=LEAN, timeout=1800)
        return m, rc, out
    bad = []
    with ThreadPoolExecutor(max_workers=jobs) as ex:
        for m, rc, out in ex.map(one, sorted(modules)):
            if rc != 0:
                bad.append(f'{m}: leanchecker rc={rc}: {out.strip()[-300:]}')
    return bad


def run_audit(pid):
    """`#print axioms` for every theorem listed in Audit/<pid>.lean -> {theorem: [axioms]}"""
    rc, out = sh(['lake', 'env', 'lean', f'GmVerif/Audit/{pid}.lean'], cwd=LEAN, timeout=600)
    res = {}
    for m in re.finditer(r"'(\S+)' depends on axioms: \[([^\]]*)\]", out):
        res[m.group(1)] = [a.strip() for a in m.group(2).replace('\n', ' ').split(',') if a.strip()]
    for m in re.finditer(r"'(\S+)' does not depend on any axioms", out):
        res[m.group(1)] = []
    return rc == 0, res, out


_ERRKIND = re.compile(r'ERR:[A-Za-z0-9_:]+')


def canon_real(s):
    """verdict view of a result line: error kinds are not compared (also inside per-item lists `ERR:Kind`)"""
    s = s.strip()
    if s.startswith('ERR'):
        return 'ERR'
    return _ERRKIND.sub('ERR', s)


def run_three_way(ops, tag, jobs=None, want_spec=True, want_impl=True, timeout=3600):
    """ops: list of op lines. Returns (real, impl, spec) lists of result lines."""
    jobs = jobs or min(16, max(1, len(ops) // 12 + 1), os.cpu_count() or 4)
    d = os.path.join(WORK, tag)
    os.makedirs(d, exist_ok=True)
    chunks = [ops[i::jobs] for i in range(jobs)]

    def one(args):
        idx, cmd = args
        path = os.path.join(d, f'ops.{idx}.txt')
        with open(path) as f:
            try:
                p = subprocess.run(cmd, stdin=f, stdout=subprocess.PIPE, stderr=subprocess.PIPE, timeout=timeout, text=True, env=ENV)
                out_text, rc_, err_ = p.stdout, p.returncode, p.stderr
            except subprocess.TimeoutExpired as e:
                out_text = (e.stdout or b'').decode() if isinstance(e.stdout, bytes) else (e.stdout or '')
                rc_, err_ = -9, 'timeout'
        class _P: pass
        p = _P(); p.stdout = out_text; p.returncode = rc_; p.stderr = err_
        lines = p.stdout.split('\n')
        if lines and lines[-1] == '':
            lines.pop()
        return idx, cmd[-1] if len(cmd) > 1 else 'real', p.returncode, lines, p.stderr[-2000:]

    for i, ch in enumerate(chunks):
        with open(os.path.join(d, f'ops.{i}.txt'), 'w') as f:
            f.write(''.join(l + '\n' for l in ch))
    tasks = []
    for i in range(jobs):
        tasks.append((i, [HARNESS, 'run']))
        if want_impl:
            tasks.append((i, [DRIVER, 'impl']))
        if want_spec:
            tasks.append((i, [DRIVER, 'spec']))
    res = {'run': {}, 'impl': {}, 'spec': {}}
    problems = []
    with ThreadPoolExecutor(max_workers=min(len(tasks), (os.cpu_count() or 4))) as ex:
        for idx, kind, rc, lines, err in ex.map(one, tasks):
            n = len(chunks[idx])
            if len(lines) != n:
                # process died (abort / stack overflow): mark the missing lines
                problems.append(f'{kind} chunk {idx}: rc={rc}, {len(lines)}/{n} lines, stderr={err[-300:]!r}')
                lines = lines + ['CRASH'] * (n - len(lines))
            res[kind][idx] = lines
    def merge(kind):
        if not res[kind]:
            return [None] * len(ops)
        out = [None] * len(ops)
        for i in range(jobs):
            for j, l in enumerate(res[kind][i]):
                out[i + j * jobs] = l
        return out
    return merge('run'), merge('impl'), merge('spec'), problems


def load_findings():
    p = os.path.join(ROOT, 'known_findings.json')
    if not os.path.exists(p):
        return []
    return json.load(open(p)).get('findings', [])


def match_finding(findings, pid, op, real):
    for f in findings:
        if f.get('status') != 'open' or f.get('property') != pid:
            continue
        if re.search(f['op_regex'], op) and re.search(f.get('real_regex', '.*'), real or ''):
            return f
    return None
