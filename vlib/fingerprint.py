"""Source fingerprints (DESIGN §3.5 / §13.12): a hash per Rust function of the modelled crates, comments and layout removed,
items behind #[cfg(gm_rs_verif)] and #[cfg(test)] skipped.  The committed baseline `fingerprints.json` records the functions the
hand-written models were written (and last validated) against.  A changed / removed / new function is NOT a failure; it tells the
check that the model of that crate may be stale, and the check then runs the deeper (thorough) generator set as well, so that a code
change gets a wider differential than an untouched tree.  `python3 -m vlib.fingerprint --write` refreshes the baseline (after a
fix: commit in /repo)."""
import hashlib, json, os, re, sys

ROOT = os.path.dirname(os.path.dirname(os.path.abspath(__file__)))
BASELINE = os.path.join(ROOT, 'fingerprints.json')
CRATES = ['gm-sm2', 'gm-sm3', 'gm-sm4', 'gm-sm9', 'gm-zuc']
DEPS = {'gm-sm2': ['gm-sm2', 'gm-sm3'], 'gm-sm9': ['gm-sm9', 'gm-sm3'], 'gm-sm3': ['gm-sm3'], 'gm-sm4': ['gm-sm4'], 'gm-zuc': ['gm-zuc']}

TOKEN = re.compile(r'''
    //[^\n]*            |   # line comment
    /\*.*?\*/           |   # block comment
    b?"(?:\\.|[^"\\])*" |   # string
    b?'(?:\\.|[^'\\])'  |   # char literal
    '[A-Za-z_]\w*       |   # lifetime
    [A-Za-z_]\w*        |   # ident
    0[xX][0-9a-fA-F_]+\w* | \d[\d_]*(?:\.\d[\d_]*)?\w* |
    \S
''', re.S | re.X)


def tokens(text):
    out = []
    for m in TOKEN.finditer(text):
        t = m.group(0)
        if t.startswith('//') or t.startswith('/*'):
            continue
        out.append(t)
    return out


def skip_item(toks, i):
    """index just after the item starting at toks[i] (brace-balanced, or ending with ';' before any '{')"""
    depth = 0
    n = len(toks)
    while i < n:
        t = toks[i]
        if t == '{':
            depth += 1
        elif t == '}':
            depth -= 1
            if depth == 0:
                return i + 1
        elif t == ';' and depth == 0:
            return i + 1
        i += 1
    return n


def functions(path):
    """{qualified fn name: sha1 of its token stream}; big constant tables (static/const items) are hashed per item too"""
    toks = tokens(open(path, encoding='utf-8', errors='replace').read())
    res = {}
    i, n = 0, len(toks)
    scope = []            # stack of (name, closing depth)
    depth = 0
    while i < n:
        t = toks[i]
        # attributes
        if t == '#' and i + 1 < n and toks[i + 1] == '[':
            j = i + 1
            d = 0
            while j < n:
                if toks[j] == '[':
                    d += 1
                elif toks[j] == ']':
                    d -= 1
                    if d == 0:
                        break
                j += 1
            attr = ''.join(toks[i:j + 1])
            i = j + 1
            if attr in ('#[cfg(gm_rs_verif)]', '#[cfg(test)]'):
                # skip further attributes, then the item
                while i < n and toks[i] == '#':
                    j = i + 1
                    d = 0
                    while j < n:
                        if toks[j] == '[':
                            d += 1
                        elif toks[j] == ']':
                            d -= 1
                            if d == 0:
                                break
                        j += 1
                    i = j + 1
                i = skip_item(toks, i)
            continue
        if t in ('impl', 'mod', 'trait') and (i == 0 or toks[i - 1] not in ('.', '::')):
            # name = tokens up to '{' or ';'
            j = i + 1
            while j < n and toks[j] not in ('{', ';'):
                j += 1
            if j < n and toks[j] == '{':
                scope.append((' '.join(toks[i:j]), depth))
                depth += 1
                i = j + 1
                continue
            i = j + 1
            continue
        if t == 'fn' and i + 1 < n and re.match(r'[A-Za-z_]\w*$', toks[i + 1]):
            j = skip_item(toks, i)
            name = '::'.join([s for s, _ in scope] + [toks[i + 1]])
            k = name
            c = 1
            while k in res:
                c += 1
                k = f'{name}#{c}'
            res[k] = hashlib.sha1(' '.join(toks[i:j]).encode()).hexdigest()[:16]
            i = j
            continue
        if t in ('const', 'static') and i + 1 < n and re.match(r'[A-Za-z_]\w*$', toks[i + 1]) and toks[i + 1] != 'fn':
            j = skip_item(toks, i)
            nm = toks[i + 2] if toks[i + 1] == 'mut' else toks[i + 1]
            name = '::'.join([s for s, _ in scope] + ['const ' + nm])
            res[name] = hashlib.sha1(' '.join(toks[i:j]).encode()).hexdigest()[:16]
            i = j
            continue
        if t == '{':
            depth += 1
        elif t == '}':
            depth -= 1
            if scope and scope[-1][1] == depth:
                scope.pop()
        i += 1
    return res


def current(repo='/repo'):
    out = {}
    for c in CRATES:
        base = os.path.join(repo, c, 'src')
        for dp, _, fs in os.walk(base):
            for f in sorted(fs):
                if f.endswith('.rs'):
                    p = os.path.join(dp, f)
                    rel = os.path.relpath(p, repo)
                    for k, v in functions(p).items():
                        out[f'{rel}::{k}'] = v
    return out


def changed(crates, repo='/repo'):
    """list of 'path::fn (changed|removed|new)' for the given crates (with their dependencies) against the committed baseline"""
    want = set()
    for c in crates:
        want.update(DEPS.get(c, [c]))
    try:
        base = json.load(open(BASELINE))['functions']
    except Exception:
        return ['fingerprints.json missing or unreadable']
    cur = current(repo)
    res = []
    for k in sorted(set(base) | set(cur)):
        if k.split('/', 1)[0] not in want:
            continue
        if k not in cur:
            res.append(f'{k} (removed)')
        elif k not in base:
            res.append(f'{k} (new)')
        elif base[k] != cur[k]:
            res.append(f'{k} (changed)')
    return res


if __name__ == '__main__':
    if '--write' in sys.argv:
        import subprocess
        head = subprocess.run(['git', '-C', '/repo', 'rev-parse', 'HEAD'], capture_output=True, text=True).stdout.strip()
        json.dump({'repo_head': head, 'functions': current()}, open(BASELINE, 'w'), indent=0, sort_keys=True)
        print('wrote', BASELINE, len(current()), 'items at', head)
    else:
        for l in changed(CRATES):
            print(l)
