"""Generators for the SM2 family: C03 C04 C05 C06 C11 C14 C15 C19 and the SM2/SM4 part of C20."""
import os, random
from . import ecpy as E
from .gens_sym import hx, rb, std_vectors, field_bytes, VEC

N, P = E.n, E.p
H = E.h32


def rscalar(rng, lo=1, hi=None):
    return rng.randrange(lo, (hi or N))


def edge_keys():
    # 1, 2, n-2; sparse / dense limbs; keys whose low limbs are all ones (carry chains in 1 + d) and multiples of 2^251 (Montgomery corner)
    return [1, 2, 3, N - 2, N - 3, (1 << 255) + 1, (1 << 64) - 1, 1 << 192, int('f' * 16 + '0' * 16 + 'f' * 16 + '0' * 15 + '1', 16) % (N - 2) + 1,
            (1 << 128) - 1, (0x1234567 << 128) | ((1 << 128) - 1), (1 << 192) - 1, (1 << 255) - 1, 1 << 251, (1 << 252) - 1, 31 << 251, 5 * (1 << 251) - 1,
            (1 << 64), (1 << 128), (1 << 255)]


def zero_limb_scalars_sm2(rng):
    """scalars below n with all-zero interior / low 64-bit limbs"""
    l = lambda: rng.randrange(1, 1 << 64)
    top = lambda: rng.randrange(1, N >> 193)
    return [(top() << 192) | (l() << 128) | l(), (top() << 192) | (l() << 64) | l(), (top() << 192) | l(), (top() << 192) | (l() << 128) | (l() << 64),
            (l() << 128) | l(), (l() << 64) | l(), l() << 128, 1 << 192, (1 << 192) + 5, l()]


def valid_sig_with_t(d, t_, k):
    """(e, r, s): a VALID signature under d made with nonce k whose verification scalar r + s equals t_"""
    r = ((1 + d) * t_ - k) % N
    s_ = (t_ - r) % N
    x1 = E.mul(k, E.G)[0]
    e = (r - x1) % N
    return e, r, s_


def small_x_points():
    """curve points with a tiny x (so that x + p < 2^256 is an out-of-range encoding of the same residue)"""
    out = []
    x = 0
    while len(out) < 4:
        y = E.lift_x(x)
        if y is not None:
            out.append((x, y))
        x += 1
    return out


def ids(rng, tier):
    out = ['default', hx(b''), hx(b'A'), hx(b'ALICE123@YAHOO.COM'), hx(b'x' * 8191),
           hx('Zo\u00eb@example.org'.encode()), hx('\u7231\u4e3d\u4e1d'.encode()), hx('ali\u0107e'.encode()), hx('\U0001f600id'.encode())]
    for _ in range(3 if tier == 'thorough' else 1):
        out.append(hx(bytes(rng.randrange(0x20, 0x7f) for _ in range(rng.randint(1, 300)))))
    return out


def limb_neighbours(M, rng, count):
    """256-bit values whose 64-bit limbs are each the corresponding limb of M, or that limb +-1 (mod 2^64): the 81 patterns, shuffled"""
    limbs = [(M >> (64 * i)) & ((1 << 64) - 1) for i in range(4)]
    out = []
    for pat in range(81):
        v = 0
        q = pat
        for i in range(4):
            dlt = (q % 3) - 1
            q //= 3
            v |= ((limbs[i] + dlt) % (1 << 64)) << (64 * i)
        out.append(v)
    rng.shuffle(out)
    out = out[:count]
    # first differing limb j is above / below M's, the limbs under it are random below / above M's (in every mix): values a
    # comparator that drops the "higher limbs are equal" guard of one limb misjudges
    for j in range(4):
        for sign in (1, -1):
            for kind in range(4):
                v = 0
                ok = True
                for i in range(4):
                    if i > j:
                        li = limbs[i]
                    elif i == j:
                        li = limbs[i] + sign * rng.choice([1, 2, rng.randrange(1, 1 << 32)])
                    else:
                        below = (kind >> (i % 2)) & 1 if kind in (1, 2) else (kind == 0)
                        li = rng.randrange(0, max(1, limbs[i] - 1)) if below else rng.randrange(min(limbs[i] + 2, (1 << 64) - 1), 1 << 64)
                    if not (0 <= li < (1 << 64)):
                        ok = False
                    v |= (li % (1 << 64)) << (64 * i)
                if ok:
                    out.append(v)
    return out


def good_k(rng):
    return H(rscalar(rng))


def load(fname):
    rows = []
    for line in open(os.path.join(VEC, 'openssl', fname)):
        if line.startswith('#') or not line.strip():
            continue
        rows.append(line.split())
    return rows


def keys_corpus():
    return {r[0]: r for r in load('sm2_keys.txt')}


# ----------------------------------------------------------------------------- representation independence (`_j` ops)
def special_zs(rng):
    """canonical Z values whose STORED (Montgomery) limbs are special: [1,0,0,0] (the integer one, not the field one), [2,0,0,0],
    [0,1,0,0], [0,0,1,0], p-1 raw; and the field elements 1 (affine), -1, 2, a random one"""
    rinv = pow(E.R, -1, P)
    out = [rinv, 2 * rinv % P, (1 << 64) * rinv % P, (1 << 128) * rinv % P, (P - 1) * rinv % P, 1, P - 1, 2, rng.randrange(3, P)]
    return out + small_order_elements(P)


def small_order_elements(m):
    """elements of multiplicative order 3, 4, 6 modulo the prime m (Z^3 = 1, Z^4 = 1, ...: 'is it one?' tests applied to a power of Z)"""
    out = []
    for k in (3, 4, 6):
        if (m - 1) % k == 0:
            for g in range(2, 40):
                w = pow(g, (m - 1) // k, m)
                if all(pow(w, d, m) != 1 for d in range(1, k)):
                    out += [w, pow(w, k - 1, m)]
                    break
    return out


_JPOS = {'sm2_verify': 'sm2_verify_j', 'sm2_verify_raw': 'sm2_verify_raw_j', 'sm2_enc': 'sm2_enc_j', 'sm2_za': 'sm2_za_j', 'sm2_kex': 'sm2_kex_j'}


def only_classes(gen, prefixes):
    """the ops of `gen` whose class starts with one of `prefixes` (used to share the 'valid-…' acceptance classes of C04 with C03)"""
    def g(tier, rng):
        for cls, op, exp in gen(tier, rng):
            if cls.startswith(tuple(prefixes)):
                yield (cls, op, exp)
    return g


def with_rep_variants(gen, always=('valid', 'annex', 'std', 'honest', 'openssl'), rate=0.08):
    """wrap a generator: ops that hand a public key (or, in the key agreement, ephemeral points) to the library are repeated with the
    point given in a Jacobian representation (x z^2, y z^3, z), z from `special_zs`; the expected answer is the same"""
    def g(tier, rng):
        r2 = random.Random(rng.getrandbits(64))
        zs = special_zs(r2)
        n = 0
        for cls, op, exp in gen(tier, rng):
            yield (cls, op, exp)
            t = op.split(' ', 1)
            if t[0] in _JPOS and len(t) == 2:
                want = any(a in cls for a in always) or r2.random() < rate
                if not want:
                    continue
                reps = zs if (n < 2 or tier == 'thorough' and n < 8) else [zs[n % len(zs)], zs[(n * 5 + 3) % len(zs)]]
                n += 1
                for z in reps:
                    if t[0] == 'sm2_kex':
                        zz = ','.join(H(v) for v in (z, zs[(n + 1) % len(zs)], zs[(n + 2) % len(zs)], z))
                        yield (cls + '-jacobian-rep', '%s %s %s' % (_JPOS[t[0]], zz, t[1]), exp)
                        zz = ','.join(H(v) for v in (1, 1, z, zs[(n + 3) % len(zs)]))
                        yield (cls + '-jacobian-rep', '%s %s %s' % (_JPOS[t[0]], zz, t[1]), exp)
                    else:
                        yield (cls + '-jacobian-rep', '%s %s %s' % (_JPOS[t[0]], H(z), t[1]), exp)
    return g


# ----------------------------------------------------------------------------- C03
def gen_c03(tier, rng):
    for name, d in std_vectors('sm2sig.A'):
        idh = 'default' if d['id'] == 'ascii:1234567812345678' else hx(field_bytes(d['id']))
        yield ('std-vector-fixed-nonce', 'sm2_sign %s %s %s %s' % (d['d'], idh, hx(field_bytes(d['msg'])), d['k']),
               'OK %s%s used=%s left=0' % (d['r'], d['s'], d['k']))
        yield ('std-vector-verify', 'sm2_verify 04%s%s %s %s %s%s' % (d['px'], d['py'], idh, hx(field_bytes(d['msg'])), d['r'], d['s']), 'OK')
    kc = keys_corpus()
    rows = load('sm2_sigs.txt')
    for i, (idx, idh, msg, r, s) in enumerate(rows):
        if tier == 'thorough' or i % 3 == 0:
            # ids in the corpus are raw bytes; only ASCII ones can go through the &str API
            try:
                bytes.fromhex(idh).decode('ascii')
            except Exception:
                continue
            yield ('openssl-corpus-verify', 'sm2_verify %s %s %s %s%s' % (kc[idx][2], idh, msg, r, s), 'OK')
    keys = edge_keys() + [rscalar(rng, 1, N - 1) for _ in range(6 if tier == 'thorough' else 2)]
    idl = ids(rng, tier)
    for idh in idl:
        yield ('id-classes', 'sm2_sign %s %s %s %s' % (H(rscalar(rng, 1, N - 1)), idh, hx(b'id-test'), good_k(rng)), None)
    lens = list(range(0, 70)) + [127, 128, 1000, 4096] if tier == 'thorough' else [0, 1, 31, 32, 33, 55, 56, 64, 200]
    for d in keys:
        for ln in (lens if d in keys[:3] or tier == 'thorough' else lens[:4]):
            idh = rng.choice(idl)
            msg = rb(rng, ln)
            k = good_k(rng)
            yield ('fixed-nonce-sign', 'sm2_sign %s %s %s %s' % (H(d), idh, hx(msg), k), None)
            if rng.random() < 0.4:
                yield ('sign-then-lib-verify', 'sm2_sv %s %s %s %s' % (H(d), idh, hx(msg), good_k(rng)), None)
    # valid signatures whose verification scalar t = r + s has all-zero 64-bit limbs ([t]P_A through the 4-bit window multiplication)
    d_ = rscalar(rng, 2, N - 1)
    for t_ in zero_limb_scalars_sm2(rng):
        k_ = int(good_k(rng), 16)
        e_, r_, s_ = valid_sig_with_t(d_, t_, k_)
        if r_ and s_ and (r_ + k_) % N:
            yield ('valid-with-zero-limb-t', 'sm2_verify_raw %s %s %s%s' % (E.enc(E.mul(d_, E.G)), H(e_), H(r_), H(s_)), 'OK')
            yield ('sign-raw-zero-limb-t', 'sm2_sign_raw %s %s %s' % (H(d_), H(e_), H(k_)), None)
    # a VALID signature whose two summands coincide ([s]G = [t]P in different Jacobian representations): the doubling branch
    for _ in range(3 if tier == 'thorough' else 2):
        dd = rscalar(rng, 2, N - 1)
        ss = rscalar(rng)
        tt = ss * pow(dd, -1, N) % N
        rr = (tt - ss) % N
        ee = (rr - E.mul(2 * ss % N, E.G)[0]) % N
        if rr and tt:
            yield ('valid-with-equal-summands', 'sm2_verify_raw %s %s %s%s' % (E.enc(E.mul(dd, E.G)), H(ee), H(rr), H(ss)), 'OK')
    # one key, different IDs one after another on ONE thread (Z_A depends on the ID, not only on the key)
    kq = [good_k(rng) for _ in range(4)]
    yield ('same-key-different-ids-history', 'seq sm2_sign %s %s %s %s ; %s %s %s %s ; %s default %s %s ; %s %s %s %s' % (
        H(d_), hx(b'alice'), hx(b'm'), kq[0], H(d_), hx(b'bob'), hx(b'm'), kq[1], H(d_), hx(b'm'), kq[2], H(d_), hx(b'alice'), hx(b'm'), kq[3]), None)
    pk_ = E.enc(E.mul(d_, E.G))
    yield ('same-key-different-ids-history', 'seq sm2_za %s %s ; %s %s ; default %s ; %s %s' % (hx(b'alice'), pk_, hx(b'bob'), pk_, pk_, hx(b'alice'), pk_), None)
    # ID too long
    yield ('id-too-long', 'sm2_sign %s %s %s %s' % (H(5), hx(b'y' * 8192), hx(b'm'), good_k(rng)), None)
    # out-of-range candidates are skipped, then a good one
    bad = ['00' * 32, H(N), H(N + 1), H(P - 2), 'ff' * 32]
    for d in keys[:3]:
        yield ('nonce-out-of-range', 'sm2_sign %s default %s %s' % (H(d), hx(b'abc'), ','.join(bad + [good_k(rng)])), None)
    # the three retry branches, constructed through the raw-digest hook: r = 0, r + k = n, s = 0
    for _ in range(6 if tier == 'thorough' else 2):
        d = rscalar(rng, 1, N - 1)
        k = rscalar(rng)
        x1 = E.mul(k, E.G)[0]
        good = good_k(rng)
        e_r0 = (-x1) % N
        e_rk = (N - k - x1) % N
        # s = 0  <=>  k = r d  <=>  r = k d^-1
        e_s0 = (k * pow(d, -1, N) - x1) % N
        for label, e in (('retry-r=0', e_r0), ('retry-r+k=n', e_rk), ('retry-s=0', e_s0)):
            yield (label, 'sm2_sign_raw %s %s %s,%s' % (H(d), H(e), H(k), good), None)
    # digests >= n and x1 >= n region: e non-canonical (the D14 class), e + x1 >= 2n cannot be constructed (2^-32 density) but e >= n can
    for _ in range(30 if tier == 'thorough' else 8):
        d = rscalar(rng, 1, N - 1)
        e = rng.choice([N, N + 1, (1 << 256) - 1, (1 << 256) - (1 << 224) + rng.getrandbits(200), rng.randrange(N, 1 << 256)])
        yield ('digest>=n', 'sm2_sign_raw %s %s %s' % (H(d), H(e), good_k(rng)), None)
        sig = H(rscalar(rng)) + H(rscalar(rng))
        yield ('digest>=n-verify', 'sm2_verify_raw %s %s %s' % (E.enc(E.mul(d, E.G)), H(e), sig), None)
    # wrong digest length
    yield ('digest-len', 'sm2_sign_raw %s %s %s' % (H(7), hx(b'1' * 31), good_k(rng)), None)


# ----------------------------------------------------------------------------- C04
def gen_c04(tier, rng):
    nsig = 64 if tier == 'thorough' else 4
    for i in range(nsig):
        d = rscalar(rng, 1, N - 1)
        pk = E.enc(E.mul(d, E.G))
        k = rscalar(rng)
        idh = rng.choice(['default', hx(b'id%d' % i)])
        msg = rb(rng, rng.randint(0, 64))
        # valid signature computed here only to CRAFT mutations (the oracle recomputes validity itself)
        import hashlib
        yield ('valid-by-construction', 'sm2_sv %s %s %s %s' % (H(d), idh, hx(msg), H(k)), None)
        # we cannot compute e without SM3 in python; obtain sig through the raw interface instead: choose digest e directly
        e = rng.getrandbits(256)
        x1 = E.mul(k, E.G)[0]
        r = (e + x1) % N
        s = pow(1 + d, -1, N) * (k - r * d) % N
        if r == 0 or s == 0 or (r + k) % N == 0:
            continue
        sig = bytes.fromhex(H(r) + H(s))
        yield ('valid-raw', 'sm2_verify_raw %s %s %s' % (pk, H(e), sig.hex()), 'OK')
        flips = range(512) if tier == 'thorough' else rng.sample(range(512), 96 if i == 0 else 12)
        for bit in flips:
            m = bytearray(sig)
            m[bit // 8] ^= 0x80 >> (bit % 8)
            yield ('bit-flip', 'sm2_verify_raw %s %s %s' % (pk, H(e), bytes(m).hex()), None)
        subs = [0, N, N + 1, (1 << 256) - 1, N - 1, 1]
        for v in subs:
            yield ('component-substitution', 'sm2_verify_raw %s %s %s%s' % (pk, H(e), H(v), H(s)), None)
            yield ('component-substitution', 'sm2_verify_raw %s %s %s%s' % (pk, H(e), H(r), H(v)), None)
        yield ('s=n-r', 'sm2_verify_raw %s %s %s%s' % (pk, H(e), H(r), H(N - r)), None)
        yield ('swapped', 'sm2_verify_raw %s %s %s%s' % (pk, H(e), H(s), H(r)), None)
        yield ('altered-digest', 'sm2_verify_raw %s %s %s' % (pk, H(e ^ 1), sig.hex()), None)
        other = E.enc(E.mul(rscalar(rng), E.G))
        yield ('altered-key', 'sm2_verify_raw %s %s %s' % (other, H(e), sig.hex()), None)
        yield ('altered-key-neg', 'sm2_verify_raw %s %s %s' % (E.enc(E.neg(E.mul(d, E.G))), H(e), sig.hex()), None)
        lens = range(0, 131) if tier == 'thorough' else ([0, 1, 31, 32, 33, 63, 64, 65, 66, 96, 127, 128, 129, 130] if i == 0 else [0, 63, 65])
        for ln in lens:
            cand = (sig + rb(rng, 70))[:ln]
            yield ('length-%s' % ('64' if ln == 64 else 'not64'), 'sm2_verify_raw %s %s %s' % (pk, H(e), hx(cand)), None)
        # through the hashed interface: altered message / id
        if i < 3 or tier == 'thorough':
            yield ('random-sig', 'sm2_verify %s %s %s %s' % (pk, idh, hx(msg), rb(rng, 64).hex()), None)
    # [s]G + [t]P = O: s = -r d (1+d)^-1 with r = e mod n (the key owner can craft this; a conforming verifier rejects)
    for _ in range(6 if tier == 'thorough' else 2):
        d = rscalar(rng, 1, N - 1)
        e = rng.getrandbits(256)
        r = e % N
        s_ = (-r * d * pow(1 + d, -1, N)) % N
        if r and s_:
            yield ('sum-is-infinity', 'sm2_verify_raw %s %s %s%s' % (E.enc(E.mul(d, E.G)), H(e), H(r), H(s_)), None)
        # [s]G = [t]P (equal summands: the doubling branch of point_add inside verify): s = r d (1-d)^-1
        s2 = (r * d * pow(1 - d, -1, N)) % N
        if r and s2:
            yield ('summands-equal', 'sm2_verify_raw %s %s %s%s' % (E.enc(E.mul(d, E.G)), H(e), H(r), H(s2)), None)
    # a VALID signature whose two summands coincide ([s]G = [t]P): the doubling branch inside verify must give 2[s]G
    for _ in range(4 if tier == 'thorough' else 2):
        d = rscalar(rng, 2, N - 1)
        s_ = rscalar(rng)
        t_ = s_ * pow(d, -1, N) % N
        r = (t_ - s_) % N
        x1 = E.mul(2 * s_ % N, E.G)[0]
        e = (r - x1) % N
        if r and (r + s_) % N:
            yield ('valid-with-equal-summands', 'sm2_verify_raw %s %s %s%s' % (E.enc(E.mul(d, E.G)), H(e), H(r), H(s_)), 'OK')
    # a VALID (r, s0) with s0 (resp. r0) so small that s0 + n (r0 + n) still fits in 32 bytes: the out-of-range twin must be rejected
    for _ in range(4 if tier == 'thorough' else 2):
        d = rscalar(rng, 2, N - 1)
        Pk = E.mul(d, E.G)
        small = rng.randrange(1, (1 << 256) - N)
        other = rscalar(rng)
        for which in ('s', 'r'):
            if which == 's':
                s0, t_ = small, (small + other) % N        # r = t - s0
                r0 = (t_ - s0) % N
            else:
                r0, s0 = small, other
                t_ = (r0 + s0) % N
            if not t_ or not r0 or not s0:
                continue
            X = E.add(E.mul(s0, E.G), E.mul(t_, Pk))
            if X is None:
                continue
            e = (r0 - X[0]) % N
            yield ('valid-with-small-' + which, 'sm2_verify_raw %s %s %s%s' % (E.enc(Pk), H(e), H(r0), H(s0)), 'OK')
            if which == 's':
                yield ('s-plus-n-twin', 'sm2_verify_raw %s %s %s%s' % (E.enc(Pk), H(e), H(r0), H(s0 + N)), 'ERR')
                yield ('s-plus-n-twin', 'sm2_verify_raw %s %s %s%s' % (E.enc(Pk), H(e), H(r0), 'ff' * 32), 'ERR')
            else:
                yield ('r-plus-n-twin', 'sm2_verify_raw %s %s %s%s' % (E.enc(Pk), H(e), H(r0 + N), H(s0)), 'ERR')
    d_ = rscalar(rng, 2, N - 1)
    for t_ in zero_limb_scalars_sm2(rng):
        e_, r_, s_ = valid_sig_with_t(d_, t_, int(good_k(rng), 16))
        if r_ and s_:
            yield ('valid-with-zero-limb-t', 'sm2_verify_raw %s %s %s%s' % (E.enc(E.mul(d_, E.G)), H(e_), H(r_), H(s_)), 'OK')
    # x1 = x([s]G + [t]P) in [n, p): the verifier must reduce it mod n (R = (e + x1) mod n). The public key is CONSTRUCTED so that
    # the sum is a chosen point Q with x(Q) >= n: P = [t^-1](Q - [s]G) (no discrete logarithm needed)
    xq = N + rng.randrange(0, P - N)
    for _ in range(4000):
        yq = E.lift_x(xq)
        if yq is not None:
            break
        xq = N + rng.randrange(0, P - N)
    if yq is not None:
        for _ in range(3 if tier == 'thorough' else 2):
            s0, t_ = rscalar(rng), rscalar(rng)
            Pk = E.mul(pow(t_, -1, N), E.add((xq, yq), E.neg(E.mul(s0, E.G))))
            r0 = (t_ - s0) % N
            e = (r0 - xq) % N
            if Pk is not None and r0 and E.add(E.mul(s0, E.G), E.mul(t_, Pk)) == (xq, yq):
                yield ('valid-with-x1>=n', 'sm2_verify_raw %s %s %s%s' % (E.enc(Pk), H(e), H(r0), H(s0)), 'OK')
                yield ('x1>=n-unreduced-r-must-fail', 'sm2_verify_raw %s %s %s%s' % (E.enc(Pk), H((e + 1) % N), H(r0), H(s0)), 'ERR')
    # x1 in [n, p) TOGETHER with a digest next to 2^256 (e + x1 >= 2^256 + n: a carry fold that itself wraps)
    if yq is not None:
        for dlt in (1, 2, max(1, (xq - N) // 2), max(1, xq - N), xq - N + 1):
            e = (1 << 256) - dlt
            s0, t_ = rscalar(rng), None
            r0 = (e + xq) % N
            t_ = (r0 + s0) % N
            if not r0 or not t_:
                continue
            Pk = E.mul(pow(t_, -1, N), E.add((xq, yq), E.neg(E.mul(s0, E.G))))
            if Pk is not None and E.add(E.mul(s0, E.G), E.mul(t_, Pk)) == (xq, yq):
                yield ('valid-with-x1>=n-and-digest-near-2^256', 'sm2_verify_raw %s %s %s%s' % (E.enc(Pk), H(e), H(r0), H(s0)), 'OK')
    # VALID signatures for limb-structured digests e (limbs 0, 1, 2^64-1, the limbs of n and their neighbours): the reduction of e
    # modulo n borrows through zero limbs / carries through all-ones limbs
    nl = [(N >> (64 * i)) & ((1 << 64) - 1) for i in range(4)]
    def structured(top_choices):
        v = 0
        for i in range(4):
            ch = [0, 0, 1, (1 << 64) - 1, nl[i], (nl[i] - 1) % (1 << 64), (nl[i] + 1) % (1 << 64), rng.getrandbits(64)]
            v |= (rng.choice(top_choices) if i == 3 else rng.choice(ch)) << (64 * i)
        return v
    for _ in range(60 if tier == 'thorough' else 24):
        e = structured([0xffffffffffffffff, 0xffffffff00000000, 0xffffffff00000001, nl[3], nl[3] + 1, 0, 1 << 63])
        d = rscalar(rng, 1, N - 1); k = rscalar(rng)
        x1 = E.mul(k, E.G)[0]
        r = (e + x1) % N
        s_ = pow(1 + d, -1, N) * (k - r * d) % N
        if r and s_ and (r + k) % N:
            yield ('valid-with-limb-structured-digest', 'sm2_verify_raw %s %s %s%s' % (E.enc(E.mul(d, E.G)), H(e), H(r), H(s_)), 'OK')
    # VALID signatures whose INTEGER sum r + s is limb-structured (in [n, 2^256): t = r + s - n is computed by a borrowing subtraction;
    # below n: no reduction): choose T, split it, solve for the key d = (k - s)/(r + s)
    for _ in range(60 if tier == 'thorough' else 24):
        T = structured([0xffffffffffffffff, 0xffffffff00000000, 0xffffffff00000001, nl[3], nl[3] + 1])
        if not (2 <= T < (1 << 256)) or T % N == 0:
            continue
        lo, hi = max(1, T - (N - 1)), min(N - 1, T - 1)
        if lo > hi:
            continue
        r = rng.randrange(lo, hi + 1); s_ = T - r
        k = rscalar(rng)
        d = (k - s_) * pow(T % N, -1, N) % N
        if d in (0, N - 1):
            continue
        x1 = E.mul(k, E.G)[0]
        e = (r - x1) % N
        yield ('valid-with-limb-structured-r+s', 'sm2_verify_raw %s %s %s%s' % (E.enc(E.mul(d, E.G)), H(e), H(r), H(s_)), 'OK')
    # a VALID signature whose two summands [s]G and [t]P are DIFFERENT points with the same y (r = 0 in the addition formulas although the
    # points are neither equal nor opposite): P = [t^-1]Q with Q the same-y partner of S = [s]G
    made = 0
    for _ in range(60):
        if made >= (4 if tier == 'thorough' else 2):
            break
        s0 = rscalar(rng); S_ = E.mul(s0, E.G)
        Q_ = E.same_y_partner(S_)
        if Q_ is None:
            continue
        t_ = rscalar(rng)
        Pk = E.mul(pow(t_, -1, N), Q_)
        r0 = (t_ - s0) % N
        X_ = E.add(S_, Q_)
        if Pk is None or X_ is None or not r0:
            continue
        e = (r0 - X_[0]) % N
        made += 1
        yield ('valid-with-same-y-summands', 'sm2_verify_raw %s %s %s%s' % (E.enc(Pk), H(e), H(r0), H(s0)), 'OK')
    # public key OBJECTS that are not curve points (the `point` field is public): (X, 0) has [2]Q = O under the formulas, so with t even
    # the sum is [s]G and r = e + x([s]G) "verifies" if the key is not validated; the point at infinity as key; one-bit near misses
    for _ in range(6 if tier == 'thorough' else 3):
        X0 = rng.randrange(1, P)
        e = rng.getrandbits(256)
        for _ in range(20):
            s0 = rscalar(rng)
            r0 = (e + E.mul(s0, E.G)[0]) % N
            if r0 and (r0 + s0) % N and ((r0 + s0) % N) % 2 == 0:
                break
        raw0 = ':'.join(H(v * E.R % P) for v in (X0, 0, 1))
        # (the digest-level hook entry performs no key validation - that is the job of the public `verify` - so the forgery is made for
        # the PUBLIC interface: e = SM3(ZA || M) with ZA over the bogus coordinates, computed independently)
        from .sm9py import sm3 as _sm3
        idb = b'1234567812345678'; msg_ = rb(rng, 9)
        za_ = _sm3((len(idb) * 8).to_bytes(2, 'big') + idb + E.a.to_bytes(32, 'big') + E.b.to_bytes(32, 'big') + E.G[0].to_bytes(32, 'big')
                   + E.G[1].to_bytes(32, 'big') + X0.to_bytes(32, 'big') + (0).to_bytes(32, 'big'))
        eh = int.from_bytes(_sm3(za_ + msg_), 'big')
        for _ in range(40):
            s1 = rscalar(rng)
            r1 = (eh + E.mul(s1, E.G)[0]) % N
            if r1 and (r1 + s1) % N and ((r1 + s1) % N) % 2 == 0:
                break
        yield ('pk-object-off-curve-order-2-forged', 'sm2_verify_p %s default %s %s%s' % (raw0, hx(msg_), H(r1), H(s1)), 'ERR')
        yield ('pk-object-off-curve', 'sm2_verify_p %s default %s %s%s' % (raw0, hx(b'msg'), H(r0), H(s0)), 'ERR')
        yield ('pk-object-at-infinity', 'sm2_verify_p %s default %s %s%s' % (E.jac(None, 1), hx(msg_), H(r1), H(s1)), 'ERR')
    for bit, nx, ny in E.near_miss_points(rng, [3, 34, 40, 97, 130, 200] if tier != 'thorough' else range(1, 256, 7)):
        yield ('pk-object-off-curve-one-bit', 'sm2_verify_p %s default %s %s%s' % (E.jac((nx, ny), 1), hx(b'm'), H(rscalar(rng)), H(rscalar(rng))), 'ERR')
    # history on one thread: a valid signature under P (stored (X, Y, 1)), then the SAME signature under -P given as (X, Y, -1) (identical X and
    # Y limbs): must be rejected whatever was verified before; then P again
    for _ in range(2):
        d = rscalar(rng, 1, N - 1); k = rscalar(rng); e = rng.getrandbits(256)
        Pk = E.mul(d, E.G)
        x1 = E.mul(k, E.G)[0]
        r0 = (e + x1) % N
        s0 = pow(1 + d, -1, N) * (k - r0 * d) % N
        if not r0 or not s0:
            continue
        j1 = E.jac(Pk, 1).split(':')
        negp = ':'.join([j1[0], j1[1], H((P - 1) * E.R % P)])
        sig = H(r0) + H(s0)
        yield ('pk-object-history-P-then-minus-P', 'seq sm2_verify_raw_p %s %s %s ; %s %s %s ; %s %s %s' % (':'.join(j1), H(e), sig, negp, H(e), sig, ':'.join(j1), H(e), sig), None)
    # r + s = n (t = 0 must be rejected): with e = r - x([s]G) the equation would hold under EVERY public key if t = n slipped through
    for s0 in [1, 2, N - 1] + [rscalar(rng) for _ in range(3 if tier == 'thorough' else 1)]:
        r0 = (N - s0) % N
        if not r0:
            continue
        e = (r0 - E.mul(s0, E.G)[0]) % N
        for _ in range(2):
            yield ('r+s=n', 'sm2_verify_raw %s %s %s%s' % (E.enc(E.mul(rscalar(rng, 1, N - 1), E.G)), H(e), H(r0), H(s0)), 'ERR')
    for idh in ids(rng, tier)[5:]:
        d = rscalar(rng, 1, N - 1)
        yield ('non-ascii-id', 'sm2_sv %s %s %s %s' % (H(d), idh, hx(b'msg'), good_k(rng)), None)
        yield ('non-ascii-id', 'sm2_sign %s %s %s %s' % (H(d), idh, hx(b'msg'), good_k(rng)), None)
    for _ in range(200 if tier == 'thorough' else 12):
        pk = E.enc(E.mul(rscalar(rng), E.G), rng.random() < 0.5)
        yield ('random-pair', 'sm2_verify_raw %s %s %s%s' % (pk, H(rng.getrandbits(256)), H(rscalar(rng)), H(rscalar(rng))), None)
    # invalid public keys
    x = rng.getrandbits(255)
    yield ('bad-pk', 'sm2_verify_raw 04%s%s %s %s' % (H(x), H(x), H(1), H(1) + H(1)), None)


# ----------------------------------------------------------------------------- C05
def gen_c05(tier, rng):
    kc = keys_corpus()
    rows = load('sm2_enc.txt')
    for i, (idx, msg, x, y, c3, c2, der) in enumerate(rows):
        if tier == 'thorough' or i % 3 == 0:
            yield ('openssl-corpus-decrypt', 'sm2_dec %s 04%s%s%s%s 0 c1c3c2' % (kc[idx][1], x, y, c3, c2), 'OK ' + msg)
            yield ('openssl-corpus-decrypt', 'sm2_dec %s 04%s%s%s%s 0 c1c2c3' % (kc[idx][1], x, y, c2, c3), 'OK ' + msg)
    # Annex C of GB/T 32918.5 through the fixed nonce (C1.x = 04EBFC71..., C3 = 59983C18...)
    yield ('std-vector-fixed-nonce',
           'sm2_enc 0409f9df311e5421a150dd7d161e4bc5c672179fad1833fc076bb08ff356f35020ccea490ce26775a52dc6ea718cc1aa600aed05fbf35e084a6632f6072da9ad13 656e6372797074696f6e207374616e64617264 0 c1c3c2 59276e27d506861a16680f3ad9c02dccef3cc1fa3cdbe4ce6d54b80deac1bc21',
           'OK 0404ebfc718e8d1798620432268e77feb6415e2ede0e073c0f4f640ecd2e149a73e858f9d81e5430a57b36daab8f950a3c64e6ee6a63094d99283aff767e124df059983c18f809e262923c53aec295d30383b54e39d609d160afcb1908d0bd876621886ca989ca9c7d58087307ca93092d651efa used=59276e27d506861a16680f3ad9c02dccef3cc1fa3cdbe4ce6d54b80deac1bc21 left=0')
    maxk = 300 if tier == 'thorough' else 100
    for klen in range(0, maxk + 1):
        z = rb(rng, rng.choice([0, 1, 32, 64, 64, 100]))
        yield ('kdf-klen' + ('-mult32' if klen % 32 == 0 else ''), 'sm2_kdf %s %d' % (hx(z), klen), None)
    # far-away blocks of the key stream (counter carries into its 2nd, 3rd and 4th byte): block 256, 65536, 2^24
    zz = rb(rng, 64)
    for blk in (1, 2, 255, 256, 257, 511, 512, 65535, 65536, 65537, 70000) + ((1 << 24, (1 << 24) + 1) if tier == 'thorough' else ()):
        yield ('kdf-far-block', 'sm2_kdf_block %s %d' % (hx(zz), blk), None)
    for klen in (1024, 4096, 8160, 8161, 8192, 8300, 16384, 65536) if tier == 'thorough' else (1024, 8160, 8161, 8300):
        yield ('kdf-long', 'sm2_kdf %s %d' % (hx(rb(rng, 64)), klen), None)
    d = rscalar(rng, 1, N - 1)
    pk = E.enc(E.mul(d, E.G))
    maxm = 300 if tier == 'thorough' else 70
    for ln in range(0, maxm + 1):
        comp = rng.choice(['0', '1'])
        order = rng.choice(['c1c2c3', 'c1c3c2'])
        msg = rb(rng, ln)
        yield ('enc-len' + ('-mult32' if ln % 32 == 0 else ''), 'sm2_enc %s %s %s %s %s' % (pk, hx(msg), comp, order, good_k(rng)), None)
        yield ('round-trip', 'sm2_ed %s %s %s %s %s' % (H(d), hx(msg), comp, order, good_k(rng)), None)
    for comp in '01':
        for order in ('c1c2c3', 'c1c3c2'):
            for msg in (b'\x00', b'\x00' * 7, b'\x00\x00\x01', b'\xff' * 33):
                dd = rscalar(rng, 1, N - 1)
                yield ('zero-messages-4-forms', 'sm2_ed %s %s %s %s %s' % (H(dd), hx(msg), comp, order, good_k(rng)), None)
    for dd in edge_keys():
        yield ('edge-keys', 'sm2_ed %s %s 0 c1c3c2 %s' % (H(dd), hx(rb(rng, 20)), good_k(rng)), None)
        yield ('edge-nonces', 'sm2_ed %s %s 1 c1c2c3 %s' % (H(rscalar(rng, 1, N - 1)), hx(rb(rng, 20)), H(dd)), None)
    # encrypting to P and then to -P, both given in COMPRESSED form (same x, other prefix), one after the other on one thread
    Qh = E.mul(rscalar(rng), E.G)
    c02 = ('02' if Qh[1] % 2 == 0 else '03') + H(Qh[0]); c03 = ('03' if Qh[1] % 2 == 0 else '02') + H(Qh[0])
    yield ('compressed-key-history', 'seq sm2_enc %s %s 0 c1c3c2 %s ; %s %s 0 c1c3c2 %s ; %s %s 1 c1c2c3 %s' % (
        c02, hx(b'abc'), good_k(rng), c03, hx(b'abc'), good_k(rng), c02, hx(b'xyz'), good_k(rng)), None)
    # all-zero-t retry (step A5) for a 1-byte message, CRAFTED: nonces k with KDF(x2||y2, 1) = 00 found with the independent
    # Python EC + SM3; the encryption must reject them and use the next candidate
    from .sm9py import sm3 as _sm3
    Ppk = E.mul(d, E.G)
    found = []
    kk = rscalar(rng, 1, N - 1)
    Q_ = E.mul(kk, Ppk)
    while len(found) < (4 if tier == 'thorough' else 2):
        if _sm3(Q_[0].to_bytes(32, 'big') + Q_[1].to_bytes(32, 'big') + b'\x00\x00\x00\x01')[0] == 0:
            found.append(kk)
        kk = (kk + 1) % N
        Q_ = E.add(Q_, Ppk)
    # t NOT all zero but with bytes that XOR / ADD to zero (a wrong all-zero test that folds the bytes would retry): 2- and 3-byte messages
    kk = rscalar(rng, 1, N - 1)
    Q_ = E.mul(kk, Ppk)
    fold = []
    while len(fold) < (6 if tier == 'thorough' else 3):
        t_ = _sm3(Q_[0].to_bytes(32, 'big') + Q_[1].to_bytes(32, 'big') + b'\x00\x00\x00\x01')
        if t_[0] == t_[1] != 0 and len(fold) % 3 == 0:
            fold.append((kk, 2))
        elif t_[0] ^ t_[1] ^ t_[2] == 0 and t_[0] != 0 and len(fold) % 3 == 1:
            fold.append((kk, 3))
        elif (t_[0] + t_[1]) % 256 == 0 and t_[0] != 0 and len(fold) % 3 == 2:
            fold.append((kk, 2))
        kk = (kk + 1) % N
        Q_ = E.add(Q_, Ppk)
    for k0, ml in fold:
        m_ = rb(rng, ml)
        yield ('t-bytes-fold-to-zero-crafted', 'sm2_enc %s %s 0 c1c3c2 %s,%s' % (E.enc(Ppk), hx(m_), H(k0), good_k(rng)), None)
        yield ('t-bytes-fold-to-zero-crafted-rt', 'sm2_ed %s %s 0 c1c3c2 %s,%s' % (H(d), hx(m_), H(k0), good_k(rng)), None)
    for i, k0 in enumerate(found):
        yield ('retry-all-zero-t-crafted', 'sm2_enc %s 5a %d %s %s,%s' % (E.enc(Ppk), i % 2, ['c1c3c2', 'c1c2c3'][i % 2], H(k0), good_k(rng)), None)
        yield ('retry-all-zero-t-crafted-twice', 'sm2_ed %s 5a 0 c1c3c2 %s,%s,%s' % (H(d), H(k0), H(found[(i + 1) % len(found)]), good_k(rng)), None)
    # all-zero-t retry for a 1-byte message: probability 2^-8 per nonce; many candidate nonces in one list so some get rejected
    for _ in range(3 if tier == 'thorough' else 1):
        cands = ','.join(good_k(rng) for _ in range(700))
        yield ('retry-all-zero-t-search', 'sm2_enc %s 5a 0 c1c3c2 %s' % (pk, cands), None)
    for _ in range(10 if tier == 'thorough' else 2):
        yield ('random-long', 'sm2_ed %s %s 0 c1c3c2 %s' % (H(d), hx(rb(rng, rng.randint(301, 5000))), good_k(rng)), None)
    yield ('message>8160-bytes', 'sm2_enc %s %s 0 c1c3c2 %s' % (pk, hx(rb(rng, 9000)), good_k(rng)), None)
    yield ('nonce-out-of-range', 'sm2_enc %s %s 0 c1c3c2 %s' % (pk, hx(b'hello'), ','.join(['00' * 32, H(N), 'ff' * 32, good_k(rng)])), None)


# ----------------------------------------------------------------------------- C06
def make_ct(rng, d, msg_len, comp, order):
    """op that produces a ciphertext is not available to python (no SM3); use the library to create, then mutate:
    the mutation ops take (d, msg, k, mutation) and are evaluated on all three sides"""
    raise NotImplementedError


def gen_c06(tier, rng):
    # Mutations are expressed as ops: sm2_tamper <d> <msg> <comp> <order> <k> <kind> <arg>
    nct = 6 if tier == 'thorough' else 2
    for i in range(nct):
        d = rscalar(rng, 1, N - 1)
        comp = '1' if i % 2 else '0'
        order = 'c1c2c3' if i % 3 == 0 else 'c1c3c2'
        mlen = rng.choice([1, 5, 17, 40])
        msg = rb(rng, mlen)
        k = good_k(rng)
        total = (33 if comp == '1' else 65) + 32 + mlen
        base = 'sm2_tamper %s %s %s %s %s' % (H(d), hx(msg), comp, order, k)
        yield ('untampered', base + ' none 0', 'OK ' + hx(msg))
        bits = range(total * 8) if tier == 'thorough' else rng.sample(range(total * 8), 100 if i == 0 else 20)
        for bit in bits:
            yield ('bit-flip', base + ' flip %d' % bit, None)
        for ln in (range(0, total) if tier == 'thorough' else [0, 1, 32, 33, 34, 64, 65, 66, 96, 97, 98, total - 1]):
            yield ('truncation', base + ' trunc %d' % ln, None)
        # two (or all) bytes of C3 / of C2 altered with the SAME mask (folds to zero under XOR)
        c1len = 33 if comp == '1' else 65
        c3off = c1len if order == 'c1c3c2' else c1len + mlen
        c2off = c1len + 32 if order == 'c1c3c2' else c1len
        for _ in range(6 if tier == 'thorough' else 2):
            i_, j_ = rng.sample(range(32), 2)
            yield ('c3-two-bytes-same-mask-lib', base + ' xor %d,%d:%02x' % (c3off + i_, c3off + j_, rng.randrange(1, 256)), None)
        yield ('c3-all-bytes-same-mask-lib', base + ' xor %s:ff' % ','.join(str(c3off + i_) for i_ in range(32)), None)
        if mlen >= 2:
            i_, j_ = rng.sample(range(mlen), 2)
            yield ('c2-two-bytes-same-mask-lib', base + ' xor %d,%d:%02x' % (c2off + i_, c2off + j_, rng.randrange(1, 256)), None)
        for pb in range(256):
            if tier == 'thorough' or pb < 8 or pb % 32 == 0:
                yield ('prefix-byte', base + ' prefix %d' % pb, None)
        # C1 replaced: off-curve, invalid-curve (b' != b), non-residue x (compressed), coordinates >= p, other valid point
        for _ in range(6 if tier == 'thorough' else 2):
            x = rng.randrange(P)
            y = rng.randrange(P)
            yield ('c1-off-curve', base + ' c1 04%s%s' % (H(x), H(y)), None)
        # point on y^2 = x^3 + ax + b' : pick x, y random and it lies on SOME curve with b' = y^2 - x^3 - ax
        x = rng.randrange(P); y = rng.randrange(1, P)
        yield ('c1-invalid-curve', base + ' c1 04%s%s' % (H(x), H(y)), None)
        while True:
            x = rng.randrange(P)
            if E.lift_x(x) is None:
                break
        yield ('c1-nonresidue-compressed', base + ' c1 02%s' % H(x), None)
        Q = E.mul(rscalar(rng), E.G)
        if Q[0] + P < (1 << 256):
            yield ('c1-coord>=p', base + ' c1 04%s%s' % (H(Q[0] + P), H(Q[1])), None)
        yield ('c1-coord>=p', base + ' c1 04%s%s' % (H(P), H(Q[1])), None)
        for (sx, sy) in small_x_points():
            yield ('c1-coord>=p-same-residue', base + ' c1 04%s%s' % (H(sx + P), H(sy)), None)
            yield ('c1-small-x-valid', base + ' c1 04%s%s' % (H(sx), H(sy)), None)
        yield ('c1-other-valid-point', base + ' c1 %s' % E.enc(Q, comp == '1'), None)
        yield ('c1-infinity-encoding', base + ' c1 00', None)
        yield ('c1-wrong-format-for-mode', base + ' c1 %s' % E.enc(Q, comp != '1'), None)
    # a ciphertext that is CONSISTENT (C2, C3 computed independently in Python for the point (0, +-sqrt b)) but whose C1.x is
    # encoded as p instead of 0 (and, as a control, the honest encoding with x = 0, which must decrypt)
    from .sm9py import sm3 as _sm3
    def _kdf(z, n):
        out, ct = b'', 1
        while len(out) < n:
            out += _sm3(z + ct.to_bytes(4, 'big')); ct += 1
        return out[:n]
    def _py_ct(d_, C1, m_):
        """C3, C2 consistent with [d]C1 (the formulas never use b, so C1 may lie on another curve y^2 = x^3 + ax + b')"""
        x2, y2 = E.mul(d_, C1)
        t_ = _kdf(x2.to_bytes(32, 'big') + y2.to_bytes(32, 'big'), len(m_))
        return _sm3(x2.to_bytes(32, 'big') + m_ + y2.to_bytes(32, 'big')), bytes(a ^ b for a, b in zip(m_, t_))
    for _ in range(4 if tier == 'thorough' else 2):
        d_ = rscalar(rng, 1, N - 1)
        m_ = rb(rng, rng.choice([1, 16, 33]))
        # honest ciphertext computed independently (control), then C3 / C2 altered in TWO bytes with the same mask
        # (a comparison that folds the differences with XOR would accept)
        k_ = rscalar(rng, 1, N - 1)
        C1 = E.mul(k_, E.G)
        x2, y2 = E.mul(k_, E.mul(d_, E.G))
        t_ = _kdf(x2.to_bytes(32, 'big') + y2.to_bytes(32, 'big'), len(m_))
        c3 = _sm3(x2.to_bytes(32, 'big') + m_ + y2.to_bytes(32, 'big'))
        c2 = bytes(a ^ b for a, b in zip(m_, t_))
        yield ('python-built-ciphertext-control', 'sm2_dec %s 04%s%s%s%s 0 c1c3c2' % (H(d_), H(C1[0]), H(C1[1]), c3.hex(), c2.hex()), 'OK ' + m_.hex())
        for (i_, j_) in ((0, 31), (5, 6), (rng.randrange(16), 16 + rng.randrange(16))):
            mask = rng.randrange(1, 256)
            c3b = bytearray(c3); c3b[i_] ^= mask; c3b[j_] ^= mask
            yield ('c3-two-bytes-same-mask', 'sm2_dec %s 04%s%s%s%s 0 c1c3c2' % (H(d_), H(C1[0]), H(C1[1]), bytes(c3b).hex(), c2.hex()), 'ERR')
        c3b = bytearray(c3)
        for i_ in range(32):
            c3b[i_] ^= 0xff
        yield ('c3-all-bytes-same-mask', 'sm2_dec %s 04%s%s%s%s 0 c1c3c2' % (H(d_), H(C1[0]), H(C1[1]), bytes(c3b).hex(), c2.hex()), 'ERR')
        # invalid-curve C1 with CONSISTENT C2, C3: a decryptor that does not test curve membership returns a plaintext
        while True:
            xi, yi = rng.randrange(1, P), rng.randrange(1, P)
            if not E.on_curve(xi, yi):
                break
        try:
            c3i, c2i = _py_ct(d_, (xi, yi), m_)
            yield ('c1-invalid-curve-consistent', 'sm2_dec %s 04%s%s%s%s 0 c1c3c2' % (H(d_), H(xi), H(yi), c3i.hex(), c2i.hex()), 'ERR')
            yield ('c1-invalid-curve-consistent', 'sm2_dec %s 04%s%s%s%s 0 c1c2c3' % (H(d_), H(xi), H(yi), c2i.hex(), c3i.hex()), 'ERR')
        except (ValueError, TypeError):
            pass
    # consistent ciphertexts for points with a tiny coordinate (x or y), honest encoding (control) and the coordinate encoded as v + p:
    # every decoder must reject the out-of-range octets although they denote the same residue
    for (sx, sy) in small_x_points()[:2] + E.small_y_points(3 if tier == 'thorough' else 2):
        d_ = rscalar(rng, 1, N - 1)
        m_ = rb(rng, rng.choice([1, 7, 32]))
        c3s, c2s = _py_ct(d_, (sx, sy), m_)
        yield ('c1-small-coordinate-control', 'sm2_dec %s 04%s%s%s%s 0 c1c3c2' % (H(d_), H(sx), H(sy), c3s.hex(), c2s.hex()), 'OK ' + m_.hex())
        for ex, ey in ((sx + P, sy), (sx, sy + P), (sx + P, sy + P)):
            if ex < (1 << 256) and ey < (1 << 256):
                yield ('c1-coord>=p-consistent', 'sm2_dec %s 04%s%s%s%s 0 c1c3c2' % (H(d_), H(ex), H(ey), c3s.hex(), c2s.hex()), 'ERR')
                yield ('c1-coord>=p-consistent', 'sm2_dec %s 04%s%s%s%s 0 c1c2c3' % (H(d_), H(ex), H(ey), c2s.hex(), c3s.hex()), 'ERR')
                yield ('point-coord>=p-same-residue', 'pk_new 04%s%s' % (H(ex), H(ey)), 'ERR')
    y0 = E.lift_x(0)
    if y0 is not None:
        y0 = y0 if isinstance(y0, int) else y0[1]
        for yy in (y0, P - y0):
            d_ = rscalar(rng, 1, N - 1)
            x2, y2 = E.mul(d_, (0, yy))
            m_ = rb(rng, 11)
            t_ = _kdf(x2.to_bytes(32, 'big') + y2.to_bytes(32, 'big'), len(m_))
            c2 = bytes(a ^ b for a, b in zip(m_, t_))
            c3 = _sm3(x2.to_bytes(32, 'big') + m_ + y2.to_bytes(32, 'big'))
            yield ('c1-x=0-consistent-control', 'sm2_dec %s 04%s%s%s%s 0 c1c3c2' % (H(d_), H(0), H(yy), c3.hex(), c2.hex()), 'OK ' + m_.hex())
            yield ('c1-x=p-consistent', 'sm2_dec %s 04%s%s%s%s 0 c1c3c2' % (H(d_), H(P), H(yy), c3.hex(), c2.hex()), 'ERR')
            yield ('c1-x=p-consistent', 'pk_new 04%s%s' % (H(P), H(yy)), 'ERR')
    # a consistent ciphertext whose key stream t is ALL ZERO (1-byte message, nonce found with the independent Python code): the
    # standard's decryption (B4) must refuse it; a conforming encryptor never emits it
    d_ = rscalar(rng, 1, N - 1)
    Ppk_ = E.mul(d_, E.G)
    kk = rscalar(rng, 1, N - 70000)
    for _t in range(3000):
        C1_, c3_, c2_ = py_encrypt(Ppk_, b'\x5a', kk)
        if c2_ == b'\x5a':
            yield ('decrypt-t-all-zero', 'sm2_dec %s 04%s%s%s%s 0 c1c3c2' % (H(d_), H(C1_[0]), H(C1_[1]), c3_.hex(), c2_.hex()), 'ERR')
            yield ('decrypt-t-all-zero', 'sm2_dec %s 04%s%s%s%s 0 c1c2c3' % (H(d_), H(C1_[0]), H(C1_[1]), c2_.hex(), c3_.hex()), 'ERR')
            break
        kk += 1
    # the DER form of the ciphertext: a hash field that is not 32 bytes must be refused, not padded
    yield from asn1_c3_short_cases(rng, rscalar(rng, 1, N - 1), tier)
    yield from asn1_coordinate_in_n_p_cases(rng, rscalar(rng, 1, N - 1))
    # raw garbage
    for ln in list(range(0, 140, 7)):
        yield ('garbage', 'sm2_dec %s %s %s %s' % (H(rscalar(rng, 1, N - 1)), hx(rb(rng, ln)), rng.choice('01'), rng.choice(['c1c2c3', 'c1c3c2'])), None)


# ----------------------------------------------------------------------------- C11
BL = [0, 1, 1 << 32, 1 << 63, (1 << 64) - 1]


def boundary_values(rng, tier):
    vals = set()
    for m in (P, N, (1 << 256) - P, (1 << 256) - N, 1 << 256, 1 << 255):
        for dlt in range(-4, 5):
            v = m + dlt
            if 0 <= v < (1 << 256):
                vals.add(v)
    for _ in range(40 if tier == 'thorough' else 12):
        vals.add(sum(rng.choice(BL) << (64 * i) for i in range(4)))
    vals.update([0, 1, 2, (1 << 256) - 1])
    return sorted(vals)


def gen_c11(tier, rng):
    vals = boundary_values(rng, tier)
    rnd = [rng.getrandbits(256) for _ in range(30 if tier == 'thorough' else 8)]
    pool = vals + rnd
    pairs = [(x, y) for x in pool for y in pool] if tier == 'thorough' else [(rng.choice(pool), rng.choice(pool)) for _ in range(500)]
    rng.shuffle(pairs)
    pairs = pairs[:4000 if tier == 'thorough' else 400]
    for x, y in pairs:
        op = rng.choice(['u256_add', 'u256_sub', 'u256_mul', 'u256_cmp', 'fp_mont_mul', 'fp_add', 'fp_sub', 'fn_add', 'fn_sub', 'fn_mul'])
        yield ('limb/field-boundary', '%s %s %s' % (op, H(x), H(y)), None)
    # sums that land exactly on / next to the modulus, differences on / next to zero, operands that differ in ONE limb only
    for M_, addop, subop in ((N, 'fn_add', 'fn_sub'), (P, 'fp_add', 'fp_sub')):
        for a in [1, 2, 3, M_ - 1, M_ - 2, (M_ + 1) // 2, M_ // 2, 1 << 255, (1 << 64) - 1, 1 << 64, 1 << 128, 1 << 192] + [rng.randrange(1, M_) for _ in range(6 if tier == 'thorough' else 2)]:
            if not (0 < a < M_):
                continue
            for dlt in (-1, 0, 1):
                b = M_ - a + dlt
                if 0 <= b < M_:
                    yield ('sum-hits-modulus%+d' % dlt, '%s %s %s' % (addop, H(a), H(b)), None)
                b2 = a + dlt
                if 0 <= b2 < M_:
                    yield ('difference-hits-zero%+d' % dlt, '%s %s %s' % (subop, H(a), H(b2)), None)
        # values within 2^64 of the modulus (upper three limbs equal to the modulus'): the reduction test must look at limb 0
        for j in (1, 2, 3, 1 << 20, (1 << 63), (1 << 64) - 1):
            for a, b in ((M_ - j, 0), (M_ - j - 1, 1), ((M_ - j) // 2, (M_ - j) - (M_ - j) // 2)):
                if 0 <= a < M_ and 0 <= b < M_:
                    yield ('sum-just-below-modulus', '%s %s %s' % (addop, H(a), H(b)), None)
    for k_ in range(4):
        base = rng.getrandbits(256) % P
        for dl in (1, (1 << 63)):
            oth = base ^ (dl << (64 * k_))
            yield ('cmp-differs-in-one-limb', 'u256_cmp %s %s' % (H(base), H(oth)), None)
            yield ('cmp-differs-in-one-limb', 'u256_cmp %s %s' % (H(oth), H(base)), None)
    for x in pool[:: (1 if tier == 'thorough' else 3)]:
        for op in ('fp_neg', 'fp_double', 'fp_triple', 'fp_div2', 'fp_sqr', 'fp_to_mont', 'fp_from_mont'):
            yield ('field-unary', '%s %s' % (op, H(x)), None)
    for x in [1, 2, P - 1, P - 2, N - 1] + [rng.randrange(1, P) for _ in range(10 if tier == 'thorough' else 3)]:
        yield ('field-inverse', 'fp_inv %s' % H(x), None)
        if x < N:
            yield ('field-inverse', 'fn_inv %s' % H(x), None)
        yield ('field-pow', 'fp_pow %s %s' % (H(x), H(rng.getrandbits(256))), None)
        yield ('field-pow', 'fn_pow %s %s' % (H(x % N), H(rng.getrandbits(256))), None)
        yield ('field-sqrt', 'fp_sqrt %s' % H(x * x % P * E.R % P), None)
        yield ('field-sqrt', 'fp_sqrt %s' % H(x), None)
    # crafted Montgomery products landing on 0, 1, m-1: a*b*R^-1 = t  => b = t*R*a^-1
    for m in (P, N):
        for t in (0, 1, m - 1):
            a_ = rng.randrange(1, m)
            b_ = t * E.R % m * pow(a_, -1, m) % m
            yield ('mont-product-lands-on-%s' % ('0' if t == 0 else '1' if t == 1 else 'm-1'),
                   '%s %s %s' % ('fp_mont_mul' if m == P else 'fn_mul', H(a_), H(b_ if m == P else t * pow(a_, -1, m) % m)), None)
    # group law on re-randomised Jacobian representations
    npts = 12 if tier == 'thorough' else 4
    pts = [E.mul(rscalar(rng), E.G) for _ in range(npts)] + [E.G]
    for A in pts:
        z1, z2 = rng.randrange(1, P), rng.randrange(1, P)
        Bp = rng.choice(pts)
        cases = [('add-generic', A, Bp, z1, z2), ('add-equal-same-Z', A, A, z1, z1), ('add-equal-different-Z', A, A, z1, z2),
                 ('add-opposite', A, E.neg(A), z1, z2), ('add-inf-left', None, A, 1, z2), ('add-inf-right', A, None, z1, 1),
                 ('add-inf-inf', None, None, 1, 1), ('add-affine-Z=1', A, Bp, 1, 1),
                 # the same point in two representations, one of them affine (mixed-addition fast paths), both orders; opposite too
                 ('add-equal-rhs-affine', A, A, z1, 1), ('add-equal-lhs-affine', A, A, 1, z2), ('add-equal-both-affine', A, A, 1, 1),
                 ('add-opposite-rhs-affine', A, E.neg(A), z1, 1), ('add-generic-rhs-affine', A, Bp, z1, 1), ('add-generic-lhs-affine', A, Bp, 1, z2)]
        # representations whose stored Z LIMBS are a small integer (Z = j * R^-1: limbs [j,0,0,0], NOT the field element one) and Z = -1
        rinv = pow(E.R, -1, P)
        for zs in (rinv, 2 * rinv % P, P - 1, (1 << 64) * rinv % P):
            yield ('special-Z-representation', 'pt_bytes %s %s' % (E.jac(A, zs), rng.choice('01')), None)
            yield ('special-Z-representation', 'pt_valid %s' % E.jac(A, zs), None)
            yield ('special-Z-representation', 'pt_add %s %s' % (E.jac(A, zs), E.jac(Bp, z2)), None)
            yield ('special-Z-representation', 'pt_dbl %s' % E.jac(A, zs), None)
            yield ('special-Z-representation', 'pt_mul %s %s' % (E.jac(A, zs), H(rng.getrandbits(64))), None)
        # two DIFFERENT points with the same y (x2 the other root of x^3 + ax + b - y^2): "equal y" must not be read as "equal or opposite"
        Sy = E.same_y_partner(A)
        if Sy is not None:
            for za, zb in ((1, 1), (z1, z2), (z1, 1), (1, z2)):
                yield ('add-same-y-different-x', 'pt_add %s %s' % (E.jac(A, za), E.jac(Sy, zb)), None)
                yield ('add-same-y-different-x', 'pt_add %s %s' % (E.jac(Sy, za), E.jac(E.neg(A), zb)), None)
        for zs in small_order_elements(P):
            yield ('special-Z-small-order', 'pt_add %s %s' % (E.jac(A, zs), E.jac(Bp, z2)), None)
            yield ('special-Z-small-order', 'pt_add %s %s' % (E.jac(Bp, z2), E.jac(A, zs)), None)
            yield ('special-Z-small-order', 'pt_dbl %s' % E.jac(A, zs), None)
            yield ('special-Z-small-order', 'pt_bytes %s 0' % E.jac(A, zs), None)
        # (X, Y, Z) and (X, Y, -Z): identical X and Y limbs, the second denotes -P
        jx = E.jac(A, z1).split(':')
        negz = ':'.join([jx[0], jx[1], H((P - z1) * E.R % P)])
        yield ('add-same-XY-negated-Z', 'pt_add %s %s' % (':'.join(jx), negz), None)
        yield ('add-same-XY-negated-Z', 'pt_add %s %s' % (negz, ':'.join(jx)), None)
        for label, X, Y, za, zb in cases:
            yield (label, 'pt_add %s %s' % (E.jac(X, za), E.jac(Y, zb)), None)
            yield (label + '-raw', 'pt_add_raw %s %s' % (E.jac(X, za), E.jac(Y, zb)), None)
        yield ('dbl', 'pt_dbl %s' % E.jac(A, z1), None)
        yield ('dbl-raw', 'pt_dbl_raw %s' % E.jac(A, z1), None)
        yield ('neg', 'pt_neg %s' % E.jac(A, z1), None)
        yield ('valid', 'pt_valid %s' % E.jac(A, z1), None)
        yield ('valid-off-curve', 'pt_valid %s' % E.jac((A[0], (A[1] + 1) % P), z1), None)
        yield ('to-bytes', 'pt_bytes %s %s' % (E.jac(A, z1), rng.choice('01')), None)
    yield ('dbl-inf', 'pt_dbl %s' % E.jac(None, 1), None)
    yield ('valid-inf', 'pt_valid %s' % E.jac(None, 1), None)
    # scalar multiplication of (X, Y, Z) and then of (X, Y, -Z) (= -P, same X and Y limbs) with the same scalar on one thread
    Ah = rng.choice(pts); zh = rng.randrange(1, P); kh = H(rng.getrandbits(256))
    jxh = E.jac(Ah, zh).split(':')
    negzh = ':'.join([jxh[0], jxh[1], H((P - zh) * E.R % P)])
    yield ('scalar-mul-history', 'seq pt_mul %s %s ; %s %s ; %s %s' % (':'.join(jxh), kh, negzh, kh, ':'.join(jxh), kh), None)
    yield ('scalar-mul-history', 'seq pt_mul %s %s ; %s %s' % (E.jac(Ah, 1), kh, ':'.join([E.jac(Ah, 1).split(':')[0], E.jac(Ah, 1).split(':')[1], H((P - 1) * E.R % P)]), kh), None)
    # scalars
    ks = [0, 1, 2, 15, 16, 17, N - 1, N, N + 1, N + 26, (1 << 256) - 1, 1 << 255, (1 << 252) - 1,
          1 << 64, 1 << 128, 1 << 192, (1 << 255) + 5, (1 << 256) - (1 << 64), (7 << 128) | 5, (7 << 192) | (5 << 64)]
    ks += [rng.getrandbits(256) for _ in range(12 if tier == 'thorough' else 3)]
    for k in ks:
        yield ('g_mul-scalar', 'g_mul %s' % H(k), None)
        A = rng.choice(pts)
        yield ('scalar_mul', 'pt_mul %s %s' % (E.jac(A, rng.randrange(1, P)), H(k)), None)
    # nibble patterns that make r equal a table entry (r = d*P then add pre[d-1]): k = d*16 + d etc.
    for dgt in range(1, 16):
        for k in (dgt * 16 + dgt, dgt * 17 * 16 + dgt, (dgt << 252) | dgt):
            yield ('scalar_mul-window-collision', 'pt_mul %s %s' % (E.jac(E.G, 1), H(k)), None)
    # every single-byte scalar b*256^i : all 32 x 255 table entries through fixed-base multiplication
    step = 1 if tier == 'thorough' else 9
    cnt = 0
    for i in range(32):
        for v in range(1, 256):
            cnt += 1
            if cnt % step == 0 or v in (1, 255):
                yield ('table-entry', 'g_mul %s' % H(v << (8 * i)), None)
    yield ('g_mul-raw', 'g_mul_raw %s' % H(rng.getrandbits(256)), None)
    yield ('pt_mul-raw', 'pt_mul_raw %s %s' % (E.jac(E.G, 1), H(rng.getrandbits(256))), None)


# ----------------------------------------------------------------------------- C14 (SM2 part; SM9 part in gens_sm9)
def gen_c14_sm2(tier, rng):
    bad = ['00' * 32, H(N), H(N + 1), H(N + 12345), H(P - 2), H(P - 1), H(P), 'ff' * 32]
    d = rscalar(rng, 1, N - 1)
    pk = E.enc(E.mul(d, E.G))
    for b_ in bad:
        g = good_k(rng)
        yield ('sm2-out-of-range-candidate', 'sm2_sign %s default %s %s,%s' % (H(d), hx(b'm'), b_, g), None)
        yield ('sm2-out-of-range-candidate', 'sm2_enc %s %s 0 c1c3c2 %s,%s' % (pk, hx(b'm'), b_, g), None)
        yield ('sm2-out-of-range-candidate', 'sm2_keygen %s,%s' % (b_, g), None)
        yield ('sm2-out-of-range-candidate', 'sm2_kex %s %s default default 16 %s %s -' % (H(d), H(rscalar(rng, 1, N - 1)), g, good_k(rng)), None)
    # candidates that agree with the order n in some limbs and are one above / below it in others (a limb-wise comparison that
    # forgets "higher limbs equal" accepts some of them): all 3^4 patterns, each followed by a good candidate
    for cand in limb_neighbours(N, rng, 81 if tier == 'thorough' else 27):
        yield ('sm2-candidate-limbwise-near-order', 'sm2_keygen %s,%s' % (H(cand), good_k(rng)), None)
        if cand % 3 == 0 or tier == 'thorough':
            yield ('sm2-candidate-limbwise-near-order', 'sm2_sign %s default %s %s,%s' % (H(d), hx(b'm'), H(cand), good_k(rng)), None)
    # long RUNS of out-of-range candidates before a good one (a capped retry loop with a fallback would use a bad one)
    for nbad in ((3, 64, 127, 128, 129, 300, 1000) if tier == 'thorough' else (3, 128, 129, 300)):
        bads = [rng.choice(['ff' * 32, H(N), H(N + rng.randrange(1, 1 << 200)), '00' * 32]) for _ in range(nbad)]
        yield ('sm2-long-run-of-bad-candidates', 'sm2_keygen %s,%s' % (','.join(bads), good_k(rng)), None)
        if nbad <= 300:
            yield ('sm2-long-run-of-bad-candidates', 'sm2_sign %s default %s %s,%s' % (H(d), hx(b'm'), ','.join(bads), good_k(rng)), None)
    for v in (1, N - 1, N - 2):
        yield ('sm2-extreme-in-range', 'sm2_keygen %s' % H(v), None)
        yield ('sm2-extreme-in-range', 'sm2_sign %s default %s %s' % (H(d), hx(b'm'), H(v)), None)
    # injected candidate => this exact scalar is used (byte-exact), successive operations consume successive candidates
    for _ in range(40 if tier == 'thorough' else 8):
        ks = [good_k(rng) for _ in range(3)]
        yield ('sm2-injected-used', 'sm2_sign %s default %s %s' % (H(d), hx(rb(rng, 8)), ','.join(ks)), None)
    # one long-lived pair of Exchange objects serving several sessions: every session must draw and use its own scalars
    for ns in ([2, 3, 5] if tier == 'thorough' else [2, 3]):
        yield ('sm2-kex-object-reuse', 'sm2_kexseq %s %s default default 16 %s %s' % (H(d), H(rscalar(rng, 1, N - 1)),
               ','.join(good_k(rng) for _ in range(ns)), ','.join(good_k(rng) for _ in range(ns))), None)
    # un-hooked randomness: statistics are gathered by a dedicated op
    n_ = 4000 if tier == 'thorough' else 600
    yield ('frozen-sm2-rng-threads', 'sm2_rngthreads %d %d' % ((8, 40) if tier == 'thorough' else (4, 12)), 'OK drawn>=1 distinct=1')
    yield ('frozen-sm2-rng-stats', 'sm2_rngstats %d' % n_, 'OK in-range=1 distinct=1 bits-ok=1')


# ----------------------------------------------------------------------------- C15
def gen_c15(tier, rng):
    for name, d in std_vectors('sm2kex.B'):
        yield ('std-vector-annex-B', 'sm2_kex %s %s default default %s %s %s -' % (d['da'], d['db'], d['klen'], d['ra'], d['rb']),
               'OK 0464ced1bdbc99d590049b434d0fd73428cf608a5db8fe5ce07f15026940bae40e376629c7ab21e7db260922499ddb118f07ce8eaae3e7720afef6a5cc062070c0 04acc27688a6f7b706098bc91ff3ad1bff7dc2802cdb14ccccdb0a90471f9bd7072fedac0494b2ffc4d6853876c79b8f301c6573ad0aa50f39fc87181e1a1b46fe %s %s %s %s' % (d['sb'], d['sa'], d['key'], d['key']))
    tampers = ['-'] + [','.join(c) for r in range(1, 5) for c in __import__('itertools').combinations(['ra', 'rb', 'sb', 'sa'], r)]
    for klen in (range(1, 201) if tier == 'thorough' else [1, 2, 16, 31, 32, 33, 64, 200]):
        dA, dB = rscalar(rng, 1, N - 1), rscalar(rng, 1, N - 1)
        ida = rng.choice(['default', hx(b'alice123@qq.com')])
        idb = rng.choice(['default', hx(b'bob456@qq.com')])
        yield ('honest-klen', 'sm2_kex %s %s %s %s %d %s %s -' % (H(dA), H(dB), ida, idb, klen, good_k(rng), good_k(rng)), None)
    # confirmation values REPLACED in transit by values that differ from the honest ones in many bits / whole bytes
    # (a comparison that only notices small differences would accept): needs the honest S_B / S_A, computed independently
    for _ in range(3 if tier == 'thorough' else 1):
        dA, dB = rscalar(rng, 1, N - 1), rscalar(rng, 1, N - 1)
        rA_, rB_ = int(good_k(rng), 16), int(good_k(rng), 16)
        hon = py_kex(dA, dB, b'1234567812345678', b'1234567812345678', rA_, rB_)
        if hon is None:
            continue
        sb_, sa_ = hon
        pre = 'sm2_kexforge %s %s default default 16 %s %s' % (H(dA), H(dB), H(rA_), H(rB_))
        yield ('forge-control-honest-value', pre + ' sb ' + sb_.hex(), 'OK accepted')
        yield ('forge-control-honest-value', pre + ' sa ' + sa_.hex(), 'OK accepted')
        for which, v in (('sb', sb_), ('sa', sa_)):
            alts = [bytes(32), b'\xff' * 32, bytes(b ^ 0xff for b in v), bytes([v[0] ^ 0xff]) + v[1:], v[:31] + bytes([v[31] ^ 0x81]),
                    bytes([v[0] ^ 0x80]) + v[1:], v[:5] + bytes([v[5] ^ 0xc3]) + v[6:], rb(rng, 32), v[1:] + v[:1]]
            for a_ in alts:
                if a_ != v:
                    yield ('forge-' + which, pre + ' %s %s' % (which, a_.hex()), 'ERR')
    # t = d + x~ r with all-zero 64-bit limbs ([t](P + [x~]R) through the 4-bit window multiplication): d = T - x~ r
    for i_, T_ in enumerate(zero_limb_scalars_sm2(rng)[: 10 if tier == 'thorough' else 4]):
        r_ = int(good_k(rng), 16)
        xr = (1 << 127) + (E.mul(r_, E.G)[0] & ((1 << 127) - 1))
        dz = (T_ - xr * r_) % N
        od, orr = rscalar(rng, 1, N - 1), good_k(rng)
        if 1 <= dz <= N - 2:
            if i_ % 2:
                yield ('t-with-zero-limbs', 'sm2_kex %s %s default default 16 %s %s -' % (H(od), H(dz), orr, H(r_)), None)
            else:
                yield ('t-with-zero-limbs', 'sm2_kex %s %s default default 16 %s %s -' % (H(dz), H(od), H(r_), orr), None)
    # the shared point at infinity: t_B = d_B + x2~ r_B = 0 (mod n) for the responder, t_A = 0 for the initiator: the run must fail
    xb_ = lambda x: (1 << 127) + (x & ((1 << 127) - 1))
    for who in ('B', 'A'):
        r_ = int(good_k(rng), 16)
        dx = (-xb_(E.mul(r_, E.G)[0]) * r_) % N
        other_d, other_r = rscalar(rng, 1, N - 1), good_k(rng)
        if 1 <= dx <= N - 2:
            if who == 'B':
                yield ('shared-point-at-infinity', 'sm2_kex %s %s default default 16 %s %s -' % (H(other_d), H(dx), other_r, H(r_)), 'ERR')
            else:
                yield ('shared-point-at-infinity', 'sm2_kex %s %s default default 16 %s %s -' % (H(dx), H(other_d), H(r_), other_r), 'ERR')
    for ns in ([2, 4] if tier == 'thorough' else [3]):
        yield ('sessions-on-one-object-pair', 'sm2_kexseq %s %s default %s 24 %s %s' % (H(rscalar(rng, 1, N - 1)), H(rscalar(rng, 1, N - 1)), hx(b'bob'),
               ','.join(good_k(rng) for _ in range(ns)), ','.join(good_k(rng) for _ in range(ns))), None)
    for ida in ids(rng, tier)[1:]:
        if len(ida) > 200:
            continue
        idb = rng.choice(ids(rng, tier)[5:9])
        yield ('id-classes', 'sm2_kex %s %s %s %s 16 %s %s -' % (H(rscalar(rng, 1, N - 1)), H(rscalar(rng, 1, N - 1)), ida, idb, good_k(rng), good_k(rng)), None)
    for t in tampers:
        for _ in range(3 if tier == 'thorough' else 1):
            dA, dB = rscalar(rng, 1, N - 1), rscalar(rng, 1, N - 1)
            yield ('tamper-' + t, 'sm2_kex %s %s default %s 16 %s %s %s' % (H(dA), H(dB), hx(b'B'), good_k(rng), good_k(rng), t), None)
    for dd in edge_keys():
        yield ('edge-keys', 'sm2_kex %s %s default default 16 %s %s -' % (H(dd), H(rscalar(rng, 1, N - 1)), good_k(rng), good_k(rng)), None)
        yield ('edge-ephemerals', 'sm2_kex %s %s default default 16 %s %s -' % (H(rscalar(rng, 1, N - 1)), H(rscalar(rng, 1, N - 1)), H(dd), good_k(rng)), None)


# ----------------------------------------------------------------------------- C19
def gen_c19(tier, rng):
    kc = keys_corpus()
    for idx, r in kc.items():
        d, pub, p8, spki, sec1, pubc = r[1], r[2], r[3], r[4], r[5], r[6]
        yield ('openssl-doc-decode', 'sm2_spki_dec %s' % spki, 'OK ' + pub)
        yield ('openssl-doc-decode', 'sm2_pkcs8_dec %s' % p8, 'OK %s %s' % (d, pub))
        yield ('openssl-doc-encode', 'sm2_spki_enc %s' % pub, 'OK ' + spki)
        yield ('openssl-doc-encode', 'sm2_pkcs8_enc %s' % d, 'OK ' + p8)
        yield ('openssl-point', 'pk_new %s' % pub, 'OK %s %s' % (pub, pubc))
        yield ('openssl-point', 'pk_new %s' % pubc, 'OK %s %s' % (pub, pubc))
        yield ('openssl-key', 'sk_new %s' % d, 'OK %s %s' % (d, pub))
    for i, (idx, msg, x, y, c3, c2, der) in enumerate(load('sm2_enc.txt')):
        if tier == 'thorough' or i % 2 == 0:
            yield ('openssl-asn1-decrypt', 'sm2_dec_asn1 %s %s 0 c1c3c2' % (kc[idx][1], der), 'OK ' + msg)
    keys = edge_keys() + [rscalar(rng, 1, N - 1) for _ in range(20 if tier == 'thorough' else 5)]
    # decoding P and then -P from their COMPRESSED encodings (same x, other prefix) on one thread, both orders
    Qh = E.mul(rscalar(rng), E.G)
    c02 = ('02' if Qh[1] % 2 == 0 else '03') + H(Qh[0]); c03 = ('03' if Qh[1] % 2 == 0 else '02') + H(Qh[0])
    yield ('compressed-decode-history', 'seq pk_new %s ; %s ; %s ; %s' % (c02, c03, c02, E.enc(E.neg(Qh))), None)
    # keys whose public point has leading zero bytes in x or y: search small multiples
    found = 0
    k = 1
    Q = E.G
    while found < (6 if tier == 'thorough' else 2) and k < 3000:
        if Q[0] >> 248 == 0 or Q[1] >> 248 == 0:
            keys.append(k)
            found += 1
        Q = E.add(Q, E.G)
        k += 1
    # private keys with leading zero nibbles / bytes / limbs (fixed-width encodings must keep them)
    for sh in (4, 8, 12, 32, 64, 68, 128, 200):
        keys.append(rng.getrandbits(256 - sh) | 1)
    for d in keys:
        Q = E.mul(d, E.G)
        for comp in (False, True):
            yield ('point-round-trip' + ('-leading-zero' if (Q[0] >> 248 == 0 or Q[1] >> 248 == 0) else ''), 'pk_new %s' % E.enc(Q, comp), None)
        yield ('sk-bytes', 'sk_new %s' % H(d), None)
        yield ('hex-round-trip', 'sk_hex %s' % hx(H(d).encode()), None)
        yield ('hex-round-trip', 'pk_hex %s' % hx(E.enc(Q, rng.random() < 0.5).encode()), None)
        yield ('doc-round-trip', 'sm2_spki_pem_rt %s %s' % (E.enc(Q), rng.choice(['lf', 'crlf'])), None)
        yield ('doc-round-trip', 'sm2_pkcs8_pem_rt %s %s' % (H(d), rng.choice(['lf', 'crlf'])), None)
        yield ('doc-encode', 'sm2_spki_enc %s' % E.enc(Q, rng.random() < 0.5), None)
        yield ('doc-encode', 'sm2_pkcs8_enc %s' % H(d), None)
    spki_prefix_ = '3059301306072a8648ce3d020106082a811ccf5501822d034200'
    # decoders reject: off-curve, wrong length, bad prefix, coordinate >= p
    Q = E.mul(rscalar(rng), E.G)
    good = bytes.fromhex(E.enc(Q))
    for ln in list(range(0, 70)) + [97, 129]:
        yield ('point-wrong-length', 'pk_new %s' % hx((good + rb(rng, 70))[:ln]), None)
    for pb in range(256):
        if tier == 'thorough' or pb < 8 or pb % 8 == 0:
            yield ('point-prefix', 'pk_new %s' % hx(bytes([pb]) + good[1:]), None)
            yield ('point-prefix-33', 'pk_new %s' % hx(bytes([pb]) + good[1:33]), None)
    for _ in range(30 if tier == 'thorough' else 8):
        yield ('point-off-curve', 'pk_new 04%s%s' % (H(rng.randrange(P)), H(rng.randrange(P))), None)
    yield ('point-coord>=p', 'pk_new 04%s%s' % (H(P), H(Q[1])), None)
    if Q[0] + P < (1 << 256):
        yield ('point-coord>=p', 'pk_new 04%s%s' % (H(Q[0] + P), H(Q[1])), None)
    yield ('point-coord>=p', 'pk_new 02%s' % H(P + 1), None)
    for (sx, sy) in small_x_points():
        yield ('point-coord>=p-same-residue', 'pk_new 04%s%s' % (H(sx + P), H(sy)), None)
        yield ('point-coord>=p-same-residue', 'pk_new %s%s' % ('02' if sy % 2 == 0 else '03', H(sx + P)), None)
        yield ('point-coord>=p-same-residue', 'pk_hex %s' % hx(('04' + H(sx + P) + H(sy)).encode()), None)
        yield ('point-coord>=p-same-residue', 'sm2_spki_dec %s04%s%s' % (spki_prefix_, H(sx + P), H(sy)), None)
        yield ('point-small-x-valid', 'pk_new 04%s%s' % (H(sx), H(sy)), None)
    # off-curve points whose y^2 and x^3 + ax + b differ in exactly ONE bit of the stored (Montgomery) or of the canonical value
    bits = range(0, 256, 3) if tier == 'thorough' else [0, 7, 31, 32, 34, 47, 63, 64, 95, 96, 100, 127, 128, 160, 191, 192, 224, 250, 255]
    for mont in (True, False):
        for bit, nx, ny in E.near_miss_points(rng, bits, mont):
            cls = 'point-off-curve-one-bit-%s' % ('mont' if mont else 'canonical')
            yield (cls, 'pk_new 04%s%s' % (H(nx), H(ny)), 'ERR')
            if bit % 4 == 0 or tier == 'thorough':
                yield (cls, 'pk_hex %s' % hx(('04' + H(nx) + H(ny)).encode()), 'ERR')
                yield (cls, 'sm2_spki_dec %s04%s%s' % (spki_prefix_, H(nx), H(ny)), None)
                yield (cls, 'pt_valid %s' % E.jac((nx, ny), 1), None)
    # VALID points whose y^2 = x^3 + ax + b has special STORED limbs ([1,0,0,0] = R^-1, [2,0,0,0], [0,1,0,0]) or is 1, 4: shortcuts in the
    # square root of point decompression ("0 and 1 are their own roots" applied to the stored word)
    rinv_ = pow(E.R, -1, P)
    for (vx, vy) in E.points_with_rhs([rinv_, 4 * rinv_ % P, (1 << 128) * rinv_ % P, 1, 4, 9]):
        for yy in (vy, P - vy):
            yield ('point-rhs-special-compressed', 'pk_new %s%s' % ('02' if yy % 2 == 0 else '03', H(vx)), 'OK 04%s%s %s%s' % (H(vx), H(yy), '02' if yy % 2 == 0 else '03', H(vx)))
            yield ('point-rhs-special-compressed', 'pk_hex %s' % hx((('02' if yy % 2 == 0 else '03') + H(vx)).encode()), None)
        yield ('point-rhs-special', 'pk_new 04%s%s' % (H(vx), H(vy)), None)
    for (sx, sy) in E.small_y_points(2):
        yield ('point-small-y-valid', 'pk_new 04%s%s' % (H(sx), H(sy)), None)
        yield ('point-coord>=p-same-residue', 'pk_new 04%s%s' % (H(sx), H(sy + P)), None)
        yield ('point-coord>=p-same-residue', 'pk_hex %s' % hx(('04' + H(sx) + H(sy + P)).encode()), None)
        yield ('point-coord>=p-same-residue', 'sm2_spki_dec %s04%s%s' % (spki_prefix_, H(sx), H(sy + P)), None)
    for v in (0, N - 1, N, N + 1, (1 << 256) - 1):
        yield ('sk-out-of-range', 'sk_new %s' % H(v), None)
    for ln in (0, 1, 31, 33, 64):
        yield ('sk-wrong-length', 'sk_new %s' % hx(rb(rng, ln)), None)
    # document with an off-curve / invalid point inside the canonical template
    spki_prefix = '3059301306072a8648ce3d020106082a811ccf5501822d034200'
    yield ('doc-invalid-point', 'sm2_spki_dec %s04%s%s' % (spki_prefix, H(5), H(7)), None)
    yield ('doc-invalid-point', 'sm2_spki_dec %s05%s%s' % (spki_prefix, H(Q[0]), H(Q[1])), None)
    # PKCS#8 document (canonical template) whose embedded public key is corrupted
    p8 = bytes.fromhex(kc['0'][3])
    for how in ('offcurve', 'prefix', 'range', 'zero'):
        m = bytearray(p8)
        if how == 'offcurve':
            m[-1] ^= 1
        elif how == 'prefix':
            m[-65] = 5
        elif how == 'range':
            m[-64:-32] = bytes.fromhex(H(P))
        else:
            m[-64:] = bytes(64)
        yield ('doc-invalid-embedded-point', 'sm2_pkcs8_dec %s' % bytes(m).hex(), None)
    dd_ = rscalar(rng, 1, N - 1)
    pub_ = bytes.fromhex(E.enc(E.mul(dd_, E.G)))
    for withpub in (True, False):
        for ln in (0, 31, 33):
            yield ('doc-private-key-size', 'sm2_pkcs8_dec %s' % p8_doc(rb(rng, ln), pub_ if withpub else None).hex(), None)
        for v in (0, N - 1, N):
            pv = bytes.fromhex(E.enc(E.mul(v % N, E.G))) if v % N else pub_
            yield ('doc-private-key-range', 'sm2_pkcs8_dec %s' % p8_doc(v.to_bytes(32, 'big'), pv if withpub else None).hex(), 'ERR' if withpub else None)
        yield ('doc-rebuilt-control', 'sm2_pkcs8_dec %s' % p8_doc(dd_.to_bytes(32, 'big'), pub_ if withpub else None).hex(), ('OK %s %s' % (H(dd_), pub_.hex())) if withpub else None)
    # embedded public key that does not belong to the private key (another valid point)
    yield ('doc-embedded-key-of-another-scalar', 'sm2_pkcs8_dec %s' % p8_doc(dd_.to_bytes(32, 'big'), bytes.fromhex(E.enc(E.mul(dd_ + 1, E.G)))).hex(), None)
    for ln in (0, 1, 26, 27, 90):
        yield ('doc-truncated', 'sm2_spki_dec %s' % hx(bytes.fromhex(spki_prefix + E.enc(Q))[:ln]), None)
        yield ('doc-truncated', 'sm2_pkcs8_dec %s' % hx(bytes.fromhex(kc['0'][3])[:ln]), None)
    # ASN.1 ciphertext: nonces chosen so that C1.x / C1.y have leading zero bytes or the top bit set/clear
    d = rscalar(rng, 1, N - 1)
    pk = E.enc(E.mul(d, E.G))
    targets = {'x-lead0': lambda q: q[0] >> 248 == 0, 'y-lead0': lambda q: q[1] >> 248 == 0,
               'x-top-set': lambda q: q[0] >> 255 == 1, 'x-top-clear': lambda q: q[0] >> 255 == 0 and q[0] >> 248 != 0,
               'y-top-set': lambda q: q[1] >> 255 == 1, 'x-lead00': lambda q: q[0] >> 240 == 0}
    k0 = rscalar(rng, 1, N - 70000)
    Q = E.mul(k0, E.G)
    hit = {}
    limit = 200000 if tier == 'thorough' else 3000
    for i in range(limit):
        for name, f in targets.items():
            if name not in hit and f(Q):
                hit[name] = k0 + i
        if len(hit) == len(targets):
            break
        Q = E.add(Q, E.G)
    for name, k in hit.items():
        msg = rb(rng, rng.randint(1, 40))
        yield ('asn1-' + name, 'sm2_enc_asn1 %s %s 0 c1c3c2 %s' % (pk, hx(msg), H(k)), None)
        yield ('asn1-rt-' + name, 'sm2_ed_asn1 %s %s %s' % (H(d), hx(msg), H(k)), None)
    for ln in (1, 2, 127, 128, 129, 255, 256, 300):
        yield ('asn1-length-forms', 'sm2_ed_asn1 %s %s %s' % (H(d), hx(rb(rng, ln)), good_k(rng)), None)
        yield ('asn1-length-forms', 'sm2_enc_asn1 %s %s 0 c1c3c2 %s' % (pk, hx(rb(rng, ln)), good_k(rng)), None)
    # malformed DER
    der = bytes.fromhex(load('sm2_enc.txt')[0][6])
    for ln in range(0, len(der), 3):
        yield ('asn1-truncated', 'sm2_dec_asn1 %s %s 0 c1c3c2' % (H(d), hx(der[:ln])), None)
    for pos in range(0, min(len(der), 80)):
        m = bytearray(der)
        m[pos] ^= 0x01
        yield ('asn1-byte-corruption', 'sm2_dec_asn1 %s %s 0 c1c3c2' % (kc['0'][1], bytes(m).hex()), None)
    for _ in range(3 if tier == 'thorough' else 1):
        for name, der_ in crafted_der_cts(rng):
            yield ('asn1-crafted-fields', 'sm2_dec_asn1 %s %s 0 c1c3c2' % (H(d), der_.hex()), None)
    # shortest possible honest DER: 1-byte message, C1.x < 2^247 and C1.y with its top bit clear (INTEGERs of 31 / 32 bytes)
    k_ = rscalar(rng, 1, N - 70000)
    Q_ = E.mul(k_, E.G)
    for _ in range(20000):
        if Q_[0] >> 247 == 0 and Q_[1] >> 255 == 0:
            break
        k_ += 1
        Q_ = E.add(Q_, E.G)
    else:
        k_ = None
    if k_ is not None:
        yield ('asn1-shortest-document', 'sm2_ed_asn1 %s 5a %s' % (H(d), H(k_)), 'OK 5a')
        yield ('asn1-shortest-document', 'sm2_ed_asn1 %s %s %s' % (H(d), hx(rb(rng, 2)), H(k_)), None)
    yield from asn1_c3_short_cases(rng, d, tier)
    yield from asn1_coordinate_in_n_p_cases(rng, d)


def asn1_c3_short_cases(rng, d, tier):
    """consistent ciphertext whose C3 begins with 00, its hash OCTET STRING re-encoded WITHOUT the leading zero (31 bytes):
    not an SM3 digest, must be InvalidDer; control: the same ciphertext with the full 32-byte field decrypts"""
    Ppk_ = E.mul(d, E.G)
    for _ in range(2 if tier == 'thorough' else 1):
        m_ = rb(rng, 9)
        kk = rscalar(rng, 1, N - 70000)
        for _t in range(5000):
            C1_, c3_, c2_ = py_encrypt(Ppk_, m_, kk)
            if c3_[0] == 0:
                break
            kk += 1
        else:
            continue
        # the boundary between the two OCTET STRINGs moved: the hash field holds only k < 32 bytes, the rest is prepended to C2
        for kq in (0, 1, 16, 31):
            yield ('asn1-c3-boundary-moved', 'sm2_dec_asn1 %s %s 0 c1c3c2' % (H(d), _der_ct(_der_int(C1_[0]), _der_int(C1_[1]), c3_[:kq], c3_[kq:] + c2_).hex()), 'ERR')
        yield ('asn1-c3-leading-zero-control', 'sm2_dec_asn1 %s %s 0 c1c3c2' % (H(d), _der_ct(_der_int(C1_[0]), _der_int(C1_[1]), c3_, c2_).hex()), 'OK ' + m_.hex())
        yield ('asn1-c3-31-bytes', 'sm2_dec_asn1 %s %s 0 c1c3c2' % (H(d), _der_ct(_der_int(C1_[0]), _der_int(C1_[1]), c3_[1:], c2_).hex()), 'ERR')


def asn1_coordinate_in_n_p_cases(rng, d):
    """legitimate C1 whose x (resp. y) lies in [n, p): field elements are bounded by p, not by the group order n"""
    Ppk_ = E.mul(d, E.G)  # noqa: F841  (the ciphertext is built for the holder of d through [d]C1)
    from .sm9py import sm3 as _sm3
    out = 0
    x = N
    while out < 2 and x < P:
        y = E.lift_x(x)
        if y is not None:
            m_ = rb(rng, 6)
            x2, y2 = E.mul(d, (x, y))
            t_ = py_kdf(x2.to_bytes(32, 'big') + y2.to_bytes(32, 'big'), len(m_))
            c2 = bytes(a ^ b for a, b in zip(m_, t_))
            c3 = _sm3(x2.to_bytes(32, 'big') + m_ + y2.to_bytes(32, 'big'))
            yield ('c1-coordinate-in-[n,p)', 'sm2_dec_asn1 %s %s 0 c1c3c2' % (H(d), _der_ct(_der_int(x), _der_int(y), c3, c2).hex()), 'OK ' + m_.hex())
            yield ('c1-coordinate-in-[n,p)', 'sm2_dec %s 04%s%s%s%s 0 c1c3c2' % (H(d), H(x), H(y), c3.hex(), c2.hex()), 'OK ' + m_.hex())
            out += 1
        x += 1


def py_kdf(z, n):
    from .sm9py import sm3 as _sm3
    out, ct = b'', 1
    while len(out) < n:
        out += _sm3(z + ct.to_bytes(4, 'big')); ct += 1
    return out[:n]


def py_encrypt(Ppk, msg, k):
    """GB/T 32918.4 encryption written independently (Python EC + SM3): (C1, C3, C2)"""
    from .sm9py import sm3 as _sm3
    C1 = E.mul(k, E.G)
    x2, y2 = E.mul(k, Ppk)
    t_ = py_kdf(x2.to_bytes(32, 'big') + y2.to_bytes(32, 'big'), len(msg))
    return C1, _sm3(x2.to_bytes(32, 'big') + msg + y2.to_bytes(32, 'big')), bytes(a ^ b for a, b in zip(msg, t_))


def special_ciphertext_cases(tier, rng):
    """ciphertexts built independently in Python around special VALUES: C2 all zero (M = t: a legitimate ciphertext; the "all-zero" refusal
    belongs to the key stream t, not to C2), C2 all ones, M all zero (C2 = t); C1 off the curve by ONE bit of the stored / canonical
    y^2 with C2, C3 consistent for that C1 (a membership test that compares part of the words accepts it)"""
    from .sm9py import sm3 as _sm3
    b32 = lambda v: v.to_bytes(32, 'big')
    for ln in ((1, 2, 19, 32, 33, 64) if tier == 'thorough' else (1, 19, 33)):
        d_ = rscalar(rng, 1, N - 1); k_ = rscalar(rng)
        Pk = E.mul(d_, E.G)
        C1 = E.mul(k_, E.G)
        x2, y2 = E.mul(k_, Pk)
        t_ = py_kdf(b32(x2) + b32(y2), ln)
        if not any(t_):
            continue
        for name, m_ in (('c2-all-zero-valid', t_), ('c2-all-ones-valid', bytes(a ^ 0xff for a in t_)), ('m-all-zero-valid', bytes(ln))):
            c3 = _sm3(b32(x2) + m_ + b32(y2)); c2 = bytes(a ^ b for a, b in zip(m_, t_))
            yield (name, 'sm2_dec %s 04%s%s%s%s 0 c1c3c2' % (H(d_), H(C1[0]), H(C1[1]), c3.hex(), c2.hex()), 'OK ' + m_.hex())
            yield (name, 'sm2_dec %s %s%s%s 1 c1c2c3' % (H(d_), E.enc(C1, True), c2.hex(), c3.hex()), 'OK ' + m_.hex())
    bits = [1, 33, 34, 45, 63, 70, 99, 128, 161, 222, 254] if tier != 'thorough' else range(0, 256, 5)
    for mont in (True, False):
        for bit, nx, ny in E.near_miss_points(rng, bits, mont):
            d_ = rscalar(rng, 1, N - 1); m_ = rb(rng, 5)
            try:
                x2, y2 = E.mul(d_, (nx, ny))
            except (ValueError, TypeError):
                continue
            t_ = py_kdf(b32(x2) + b32(y2), len(m_))
            c3 = _sm3(b32(x2) + m_ + b32(y2)); c2 = bytes(a ^ b for a, b in zip(m_, t_))
            yield ('c1-off-curve-one-bit-consistent', 'sm2_dec %s 04%s%s%s%s 0 c1c3c2' % (H(d_), H(nx), H(ny), c3.hex(), c2.hex()), 'ERR')


def terminates_extra_sm2(tier, rng):
    """C20: (a) every retry branch of signing / encryption is driven (class prefix `terminates-`: the call must return), (b) decryption of
    truncated ciphertexts whose C1 prefix byte CONTRADICTS the `compressed` flag (04 + a valid 65-byte point with compressed = true, 02/03 with
    compressed = false), every length around the two layouts"""
    for cls, op, exp in gen_c03(tier, rng):
        if cls.startswith('retry'):
            yield ('terminates-sign-' + cls, op, exp)
    for cls, op, exp in gen_c05(tier, rng):
        if cls.startswith('retry-all-zero-t-crafted'):
            yield ('terminates-encrypt-' + cls, op, exp)
    d_ = rscalar(rng, 1, N - 1)
    C1 = E.mul(rscalar(rng), E.G)
    body = rb(rng, 140)
    for comp_point, flag in ((False, '1'), (True, '0'), (False, '0'), (True, '1')):
        pre = bytes.fromhex(E.enc(C1, comp_point))
        lens = range(len(pre), len(pre) + 70) if tier == 'thorough' else list(range(len(pre), len(pre) + 70, 3)) + [len(pre) + 32, len(pre) + 33, 97, 98, 99, 65, 66, 129, 130]
        for ln in lens:
            ct = (pre + body)[:ln]
            for order in ('c1c3c2', 'c1c2c3'):
                yield ('terminates-decrypt-prefix-vs-flag', 'sm2_dec %s %s %s %s' % (H(d_), ct.hex(), flag, order), None)


def p8_doc(dbytes, pub=None):
    """PKCS#8 PrivateKeyInfo for SM2 around an RFC 5915 ECPrivateKey whose privateKey OCTET STRING holds `dbytes` (any length)
    and, when `pub` (65 bytes) is given, the optional [1] publicKey BIT STRING"""
    tlv = lambda tag, body: bytes([tag]) + _der_len(len(body)) + body
    ec = tlv(0x02, b'\x01') + tlv(0x04, dbytes)
    if pub is not None:
        ec += tlv(0xa1, tlv(0x03, b'\x00' + pub))
    alg = tlv(0x30, bytes.fromhex('06072a8648ce3d020106082a811ccf5501822d'))
    return tlv(0x30, tlv(0x02, b'\x00') + alg + tlv(0x04, tlv(0x30, ec)))


def py_kex(dA, dB, idA, idB, rA, rB):
    """honest S_B, S_A of GB/T 32918.3 (w = 127, tags 02 / 03), written independently; None if a degenerate case occurs"""
    from .sm9py import sm3 as _sm3
    def za(idb, Pt):
        entl = (len(idb) * 8).to_bytes(2, 'big')
        return _sm3(entl + idb + E.a.to_bytes(32, 'big') + E.b.to_bytes(32, 'big') + E.G[0].to_bytes(32, 'big') + E.G[1].to_bytes(32, 'big')
                    + Pt[0].to_bytes(32, 'big') + Pt[1].to_bytes(32, 'big'))
    PA, PB = E.mul(dA, E.G), E.mul(dB, E.G)
    RA, RB = E.mul(rA, E.G), E.mul(rB, E.G)
    xb = lambda x: (1 << 127) + (x & ((1 << 127) - 1))
    tB = (dB + xb(RB[0]) * rB) % N
    V = E.mul(tB, E.add(PA, E.mul(xb(RA[0]), RA)))
    if V is None:
        return None
    b32 = lambda v: v.to_bytes(32, 'big')
    ZA, ZB = za(idA, PA), za(idB, PB)
    inner = _sm3(b32(V[0]) + ZA + ZB + b32(RA[0]) + b32(RA[1]) + b32(RB[0]) + b32(RB[1]))
    return _sm3(b'\x02' + b32(V[1]) + inner), _sm3(b'\x03' + b32(V[1]) + inner)


def _der_len(n):
    if n < 128:
        return bytes([n])
    b = n.to_bytes((n.bit_length() + 7) // 8, 'big')
    return bytes([0x80 | len(b)]) + b


def _der_int_raw(content):
    return b'\x02' + _der_len(len(content)) + content


def _der_int(v):
    b = v.to_bytes(max(1, (v.bit_length() + 7) // 8), 'big')
    if b[0] & 0x80:
        b = b'\x00' + b
    return _der_int_raw(b)


def _der_ct(xi, yi, h, c):
    """SEQUENCE { xi, yi, OCTET STRING h, OCTET STRING c } with xi, yi already-encoded elements"""
    body = xi + yi + b'\x04' + _der_len(len(h)) + h + b'\x04' + _der_len(len(c)) + c
    return b'\x30' + _der_len(len(body)) + body


def crafted_der_cts(rng):
    """structurally valid DER ciphertexts with boundary-sized INTEGER / OCTET STRING fields (yasna accepts the syntax;
    the size checks of decrypt_asn1 decide)"""
    h = rb(rng, 32)
    c = rb(rng, 5)
    x32 = rng.randrange(1 << 255, 1 << 256)
    y32 = rng.randrange(1 << 255, 1 << 256)
    small = rng.randrange(1, 1 << 200)
    out = []
    ints = {
        '33-significant-bytes-lead-01': _der_int((1 << 256) | x32),
        '33-significant-bytes-lead-7f': _der_int((0x7f << 256) | x32),
        '34-bytes': _der_int((1 << 264) | x32),
        '64-bytes': _der_int((1 << 505) | x32),
        'zero': _der_int(0),
        'short': _der_int(small),
        'negative': _der_int_raw(b'\xff' + rb(rng, 31)),
        'non-minimal': _der_int_raw(b'\x00\x00' + rb(rng, 31)),
        'empty-content': _der_int_raw(b''),
        'top-bit-padded': _der_int(x32),
    }
    for name, enc in ints.items():
        out.append(('x-' + name, _der_ct(enc, _der_int(y32), h, c)))
        out.append(('y-' + name, _der_ct(_der_int(x32), enc, h, c)))
    out.append(('both-33', _der_ct(ints['33-significant-bytes-lead-01'], ints['33-significant-bytes-lead-7f'], h, c)))
    for hl in (0, 31, 33, 64):
        out.append(('c3-len-%d' % hl, _der_ct(_der_int(x32), _der_int(y32), rb(rng, hl), c)))
    for cl in (0, 1, 127, 128, 300):
        out.append(('c2-len-%d' % cl, _der_ct(_der_int(x32), _der_int(y32), h, rb(rng, cl))))
    out.append(('trailing-bytes', _der_ct(_der_int(x32), _der_int(y32), h, c) + b'\x00'))
    out.append(('wrong-outer-tag', b'\x31' + _der_ct(_der_int(x32), _der_int(y32), h, c)[1:]))
    return out


# ----------------------------------------------------------------------------- C20 (SM2 + SM4 entry points; SM9 part in gens_sm9)
def gen_c20_sm2(tier, rng):
    d = rscalar(rng, 1, N - 1)
    pk = E.enc(E.mul(d, E.G))
    maxlen = 200 if tier == 'thorough' else 80
    for ln in range(0, maxlen + 1):
        for content in ('00', 'ff', 'rnd'):
            if tier != 'thorough' and content != 'rnd' and ln % 3:
                continue
            data = bytes(ln) if content == '00' else b'\xff' * ln if content == 'ff' else rb(rng, ln)
            h = hx(data)
            yield ('sm2-verify-len', 'sm2_verify %s default %s %s' % (pk, hx(b'm'), h), None)
            yield ('sm2-decrypt-len', 'sm2_dec %s %s %s %s' % (H(d), h, rng.choice('01'), rng.choice(['c1c2c3', 'c1c3c2'])), None)
            yield ('sm2-decrypt-asn1-len', 'sm2_dec_asn1 %s %s 0 c1c3c2' % (H(d), h), None)
            yield ('sm2-pk-len', 'pk_new %s' % h, None)
            yield ('sm2-sk-len', 'sk_new %s' % h, None)
            yield ('sm2-spki-len', 'sm2_spki_dec %s' % h, None)
            yield ('sm2-pkcs8-len', 'sm2_pkcs8_dec %s' % h, None)
            yield ('sm2-hex-len', 'pk_hex %s' % hx(data.hex().encode()[:ln]), None)
            yield ('sm2-hex-len', 'sk_hex %s' % hx(data.hex().encode()[:ln]), None)
            yield ('sm4-new-len', 'sm4 enc %s %s' % (h, hx(bytes(16))), None)
            yield ('sm4-block-len', 'sm4 dec %s %s' % (hx(bytes(16)), h), None)
            yield ('sm4-mode-dec-len', 'sm4mode cbc dec %s %s %s' % (hx(bytes(16)), hx(bytes(16)), h), None)
            yield ('sm4-mode-iv-len', 'sm4mode ctr dec %s %s %s' % (hx(bytes(16)), h, hx(bytes(20))), None)
            if ln <= 64:
                yield ('sm2-kdf-len', 'sm2_kdf %s %d' % (h, ln), None)
    for v in (0, 1, N - 2, N - 1, N, (1 << 256) - 1):
        yield ('terminates-boundary-keys-sign', 'sm2_sv %s default %s %s' % (H(v), hx(b'm'), good_k(rng)), None)
        yield ('terminates-boundary-keys-encrypt', 'sm2_ed %s %s 0 c1c3c2 %s' % (H(v), hx(b'm'), good_k(rng)), None)
    # counter / carry extremes of the stream modes (the counter wraps while the data is processed)
    for iv_, ln in (('ff' * 16, 16), ('ff' * 16, 20), ('ff' * 16, 48), ('ff' * 15 + 'fd', 48), ('ff' * 15 + 'fe', 33), ('00' + 'ff' * 15, 32)):
        for mode in ('ctr', 'ofb', 'cfb', 'cbc'):
            for dirn in ('enc', 'dec'):
                yield ('sm4-mode-counter-wrap', 'sm4mode %s %s %s %s %s' % (mode, dirn, hx(bytes(16)), iv_, hx(rb(rng, ln if dirn == 'enc' or mode != 'cbc' else (ln // 16) * 16))), None)
    # PKCS#8 documents whose private-key OCTET STRING has the wrong size or an out-of-range value, with and without the optional
    # embedded public key (the decoder must validate the scalar in both shapes)
    dd_ = rscalar(rng, 1, N - 1)
    pub_ = bytes.fromhex(E.enc(E.mul(dd_, E.G)))
    for withpub in (True, False):
        for ln in (0, 1, 8, 16, 31, 33, 40, 64):
            yield ('sm2-pkcs8-private-key-size', 'sm2_pkcs8_dec %s' % p8_doc(rb(rng, ln), pub_ if withpub else None).hex(), None)
        for v in (0, N - 1, N, N + 1, (1 << 256) - 1):
            pv = bytes.fromhex(E.enc(E.mul(v % N, E.G))) if v % N else pub_
            yield ('sm2-pkcs8-private-key-range', 'sm2_pkcs8_dec %s' % p8_doc(v.to_bytes(32, 'big'), pv if withpub else None).hex(), 'ERR' if withpub else None)
        yield ('sm2-pkcs8-rebuilt-control', 'sm2_pkcs8_dec %s' % p8_doc(dd_.to_bytes(32, 'big'), pub_ if withpub else None).hex(),
               ('OK %s %s' % (H(dd_), pub_.hex())) if withpub else None)
    yield ('terminates-empty-message-encrypt', 'sm2_enc %s - 0 c1c3c2 %s' % (pk, good_k(rng)), None)
    for _ in range(3 if tier == 'thorough' else 1):
        for name, der_ in crafted_der_cts(rng):
            yield ('sm2-decrypt-asn1-crafted-' + name.split('-')[0], 'sm2_dec_asn1 %s %s 0 c1c3c2' % (H(d), der_.hex()), None)
    # bad hex strings
    for s_ in (b'zz', b'0', b'04' + b'g' * 128, b''):
        yield ('hex-garbage', 'pk_hex %s' % hx(s_), None)
        yield ('hex-garbage', 'sk_hex %s' % hx(s_), None)
    # strings that are valid UTF-8 but not ASCII, with multi-byte characters straddling small byte offsets
    for s_ in ('中文公钥', '🔑04', '0é' + '0' * 128, '\ufeff' + E.enc(E.mul(d, E.G)), '０４' + '8' * 128, 'é', '0' + '中' * 43, E.enc(E.mul(d, E.G))[:129] + 'é'):
        yield ('hex-non-ascii', 'pk_hex %s' % hx(s_.encode()), None)
        yield ('hex-non-ascii', 'sk_hex %s' % hx(s_.encode()), None)
    good_hex = E.enc(E.mul(d, E.G)).encode()
    yield ('hex-valid', 'pk_hex %s' % hx(good_hex), None)
    yield ('hex-valid', 'sk_hex %s' % hx(H(d).encode()), None)
    yield ('hex-off-curve', 'pk_hex %s' % hx(('04' + H(3) + H(4)).encode()), None)
    # single-byte corruptions of valid encodings
    ctsig = bytes.fromhex(E.enc(E.mul(d, E.G)))
    for pos in range(0, 65, 1 if tier == 'thorough' else 5):
        m = bytearray(ctsig); m[pos] ^= 0xff
        yield ('corrupt-pk', 'pk_new %s' % bytes(m).hex(), None)
